"""Shared plumbing for the tz-rs verification checks: building the harness, running TLC
(model checking and trace validation), classifying disagreements, writing evidence."""
import json, os, re, shutil, subprocess, sys, time, hashlib

VERIF = os.path.dirname(os.path.dirname(os.path.abspath(__file__)))
SPEC = os.path.join(VERIF, "spec")
BASE_OUT = os.path.join(VERIF, "out")
# transient files of this process (concurrent runs of checks never share them); violation files stay under out/violations
OUT = os.path.join(BASE_OUT, f"w{os.getpid()}")
import atexit
atexit.register(lambda: shutil.rmtree(OUT, ignore_errors=True))
HARNESS = os.path.join(VERIF, "harness")
REPO = os.environ.get("VERIF_REPO", "/repo")
NCPU = 16


class ToolError(Exception):
    pass


def log(*a):
    print(*a, file=sys.stderr, flush=True)


def W(v):
    out = [1 if v < 0 else 0]
    m = abs(v)
    while m:
        out.append(m % 1000)
        m //= 1000
    return out


def unW(w):
    acc = 0
    for limb in reversed(w[1:]):
        acc = acc * 1000 + limb
    return -acc if w[0] == 1 else acc


def B(s):
    return list(s.encode() if isinstance(s, str) else s)


# ---------------------------------------------------------------------------------------------
# harness

def harness_dir():
    """The harness crate is instantiated (Cargo.toml from the template) for the repository under test."""
    if REPO == "/repo":
        return HARNESS
    tag = hashlib.sha1(REPO.encode()).hexdigest()[:10]
    d = os.path.join(OUT, "harness-" + tag)
    if not os.path.isdir(d):
        os.makedirs(d)
        shutil.copytree(os.path.join(HARNESS, "src"), os.path.join(d, "src"))
        shutil.copytree(os.path.join(HARNESS, ".cargo"), os.path.join(d, ".cargo"))
        shutil.copy(os.path.join(HARNESS, "Cargo.lock"), d)
    else:
        shutil.rmtree(os.path.join(d, "src"))
        shutil.copytree(os.path.join(HARNESS, "src"), os.path.join(d, "src"))
    return d


_built = {}


def build_harness(profile="chk", features=None):
    """cargo build of the harness against REPO's current working tree. A build failure of the crate under
    test is reported to the caller (returns (None, log)); other failures are tool errors."""
    key = (profile, features)
    if key in _built:
        return _built[key]
    d = harness_dir()
    tmpl = open(os.path.join(HARNESS, "Cargo.toml.in")).read().replace("@REPO@", REPO)
    cur = None
    p = os.path.join(d, "Cargo.toml")
    if os.path.exists(p):
        cur = open(p).read()
    if cur != tmpl:
        open(p, "w").write(tmpl)
    env = dict(os.environ, CARGO_NET_OFFLINE="true", RUSTFLAGS=os.environ.get("RUSTFLAGS", ""))
    if REPO != "/repo":
        env["CARGO_TARGET_DIR"] = os.path.join(BASE_OUT, "target-scratch")      # scratch copies share compiled dependencies
    cmd = ["cargo", "build", "--offline", "--profile", profile]
    tdir = "target"
    if features is not None:
        cmd += ["--no-default-features", "--features", features]
        if REPO == "/repo":
            cmd += ["--target-dir", "target-" + features]
        tdir = "target-" + features
    t0 = time.time()
    lock = None
    if REPO != "/repo":
        # scratch copies share one target directory: build and copy-out are one critical section across processes
        import fcntl
        os.makedirs(BASE_OUT, exist_ok=True)
        lock = open(os.path.join(BASE_OUT, "target-scratch.lock"), "w")
        fcntl.flock(lock, fcntl.LOCK_EX)
    try:
        r = subprocess.run(cmd, cwd=d, env=env, capture_output=True, text=True)
        if r.returncode != 0:
            res = (None, r.stderr[-4000:])
        elif REPO != "/repo":
            # copy the binary out of the shared scratch target so that a later scratch build cannot replace it under a running check
            dst = os.path.join(d, f"tzverif-{profile}-{features or 'default'}")
            shutil.copy(os.path.join(BASE_OUT, "target-scratch", profile, "tzverif"), dst)
            res = (dst, "")
        else:
            res = (os.path.join(d, tdir, profile, "tzverif"), "")
    finally:
        if lock:
            lock.close()
    log(f"[build] {' '.join(cmd)} -> {r.returncode} in {time.time()-t0:.1f}s")
    _built[key] = res
    return res


def run_harness(binary, inp, outp, timeout=3600):
    r = subprocess.run([binary, "run", inp, outp], capture_output=True, text=True, timeout=timeout)
    if r.returncode != 0:
        # an abort of the process (stack overflow, abort()) is data about the crate, but we cannot attribute it here
        raise ToolError(f"harness exited {r.returncode}: {r.stderr[-2000:]}")
    return json.loads(r.stdout.strip().splitlines()[-1])


# ---------------------------------------------------------------------------------------------
# TLC

TLC_JAR = "/opt/veriftools/tla/tla2tools.jar:/opt/veriftools/tla/CommunityModules-deps.jar"
_ws = re.compile(r"(\d[\d,]*) states generated, (\d[\d,]*) distinct states found")


def _tlc_cmd(workers, xmx, extra_java=()):
    return ["java", "-XX:+UseParallelGC", f"-Xmx{xmx}", *extra_java, "-cp", TLC_JAR, "tlc2.TLC", "-workers", str(workers),
            "-noGenerateSpecTE", "-cleanup"]


def parse_vec_line(line):
    # <<"VEC", "<json-escaped>">>
    m = re.match(r'^<<"(\w+)", (".*")>>$', line)
    if not m:
        return None, None
    return m.group(1), json.loads(json.loads(m.group(2)))


def run_mc(module, consts, invariants=("Inv",), workers=8, timeout=1200, tag=None, vec_out=None, xmx="6g", spec="Spec", extra_cfg=""):
    """Model-check spec/<module>.tla with a generated .cfg. Returns dict(states, distinct, vectors, seconds).
    VEC lines printed by the model are written to vec_out (ndjson). Any invariant violation of a *spec-level*
    model is a tool error (the models never look at the code)."""
    tag = tag or module
    # Optional cache of the vectors of a bounded model (they depend on the specification only). Used by the mutation-analysis
    # tooling (VERIF_MC_CACHE=1); registered checks always run TLC live.
    cache_key = None
    if os.environ.get("VERIF_MC_CACHE") == "1":
        h = hashlib.sha1()
        for fn in sorted(os.listdir(SPEC)):
            if fn.endswith(".tla"):
                h.update(open(os.path.join(SPEC, fn), "rb").read())
        h.update(json.dumps([module, {k: str(v) for k, v in consts.items()}, list(invariants), extra_cfg], sort_keys=True).encode())
        cache_key = os.path.join(VERIF, "cache", h.hexdigest())
        if os.path.exists(cache_key + ".json"):
            info = json.load(open(cache_key + ".json"))
            if vec_out:
                shutil.copy(cache_key + ".vec", vec_out)
            log(f"[mc] {module}: cached ({info['distinct']} distinct states, {info['vectors']} vectors)")
            return info
    work = os.path.join(OUT, "mc-" + tag)
    shutil.rmtree(work, ignore_errors=True)
    os.makedirs(work)
    cfg = os.path.join(work, module + ".cfg")
    with open(cfg, "w") as f:
        f.write(f"SPECIFICATION {spec}\n")
        for inv in invariants:
            f.write(f"INVARIANT {inv}\n")
        if consts:
            f.write("CONSTANTS\n")
            for k, v in consts.items():
                f.write(f"  {k} {v}\n" if str(v).startswith("<-") else f"  {k} = {v}\n")
        f.write("CHECK_DEADLOCK FALSE\n")
        f.write(extra_cfg)
    cmd = _tlc_cmd(workers, xmx) + ["-metadir", os.path.join(work, "meta"), "-config", cfg, os.path.join(SPEC, module + ".tla")]
    t0 = time.time()
    nvec = 0
    states = distinct = None
    err = []
    vf = open(vec_out, "w") if vec_out else None
    p = subprocess.Popen(cmd, cwd=SPEC, stdout=subprocess.PIPE, stderr=subprocess.STDOUT, text=True)
    try:
        for line in p.stdout:
            line = line.rstrip("\n")
            if line.startswith('<<"VEC"'):
                k, v = parse_vec_line(line)
                if vf and v is not None:
                    vf.write(json.dumps(v, separators=(",", ":")) + "\n")
                    nvec += 1
                continue
            m = _ws.search(line)
            if m:
                states = int(m.group(1).replace(",", ""))
                distinct = int(m.group(2).replace(",", ""))
            if line.startswith("Error:") or err:
                err.append(line)
            if time.time() - t0 > timeout:
                p.kill()
                raise ToolError(f"TLC model checking of {module} timed out after {timeout}s")
        p.wait()
    finally:
        if vf:
            vf.close()
        shutil.rmtree(os.path.join(work, "meta"), ignore_errors=True)
    if err or p.returncode != 0 or states is None:
        raise ToolError(f"TLC on {module} failed (rc={p.returncode}):\n" + "\n".join(err[:40]))
    dt = time.time() - t0
    log(f"[mc] {module} {consts}: {states} states, {distinct} distinct, {nvec} vectors, {dt:.1f}s")
    info = dict(module=module, states=states, distinct=distinct, vectors=nvec, seconds=round(dt, 1), consts={k: str(v) for k, v in consts.items()})
    if cache_key:
        os.makedirs(os.path.dirname(cache_key), exist_ok=True)
        if vec_out:
            shutil.copy(vec_out, cache_key + ".vec")
        else:
            open(cache_key + ".vec", "w").close()
        json.dump(info, open(cache_key + ".json", "w"))
    return info


def expect_violated(module, consts, invariant, workers=4, timeout=600):
    """A witness run: the invariant must be VIOLATED (the situation it denies is reachable in the model).
    Returns a dict for the evidence; raises ToolError if TLC finds no violation or fails otherwise."""
    try:
        run_mc(module, consts, invariants=(invariant,), workers=workers, timeout=timeout, tag=module + "-" + invariant)
    except ToolError as ex:
        if f"Invariant {invariant} is violated" in str(ex):
            log(f"[mc] {module}: witness {invariant} violated, as required")
            return dict(module=module, witness=invariant, outcome="violated, as required", consts={k: str(v) for k, v in consts.items()})
        raise
    raise ToolError(f"witness {invariant} of {module} is not violated: the model does not reach the situation it is meant to exhibit")


def run_tlapm(relpath, timeout=1500):
    """Check a TLAPS proof module under spec/ with tlapm (unbounded, machine-checked). Returns a dict for the evidence;
    any unproved obligation is a tool error (proofs never look at the code)."""
    t0 = time.time()
    d = os.path.join(SPEC, os.path.dirname(relpath))
    cache = os.path.join(d, ".tlacache")
    shutil.rmtree(cache, ignore_errors=True)
    try:
        r = subprocess.run(["tlapm", "--threads", "8", os.path.basename(relpath)], cwd=d, capture_output=True, text=True, timeout=timeout)
    except subprocess.TimeoutExpired:
        raise ToolError(f"tlapm on {relpath} timed out after {timeout}s")
    finally:
        shutil.rmtree(cache, ignore_errors=True)
    out = r.stdout + r.stderr
    m = re.search(r"All (\d+) obligations? proved", out)
    if r.returncode != 0 or not m:
        raise ToolError(f"tlapm on {relpath} failed (rc={r.returncode}):\n" + "\n".join(l for l in out.splitlines() if "ERROR" in l or "obligations" in l)[:1500])
    log(f"[tlapm] {relpath}: all {m.group(1)} obligations proved, {time.time()-t0:.1f}s")
    return dict(module=relpath, obligations_proved=int(m.group(1)), seconds=round(time.time() - t0, 1), prover="tlapm 1.6.0-pre (SMT, Zenon, Isabelle, PTL back ends)")


def run_apalache(module, inv, timeout=600):
    """Supplementary unbounded lemma (Apalache). Never a verdict: returns a short status string for the evidence."""
    d = os.path.join(SPEC, "apalache")
    work = os.path.join(OUT, "apalache-" + module)
    shutil.rmtree(work, ignore_errors=True)
    try:
        r = subprocess.run(["apalache-mc", "check", "--length=0", f"--inv={inv}", f"--out-dir={work}", module + ".tla"], cwd=d, capture_output=True, text=True, timeout=timeout)
        out = r.stdout + r.stderr
        status = "NoError (lemmas hold for all integers)" if "The outcome is: NoError" in out else "not discharged: " + out[-300:]
    except (subprocess.TimeoutExpired, FileNotFoundError) as e:
        status = f"not run: {e}"
    shutil.rmtree(work, ignore_errors=True)
    log(f"[apalache] {module}.{inv}: {status[:80]}")
    return status


def split_groups(path, nshards, min_events=1500):
    """Split an ndjson trace into shard files at group boundaries (lines carrying "g":1 start a group;
    a trace without marks can be cut anywhere)."""
    lines = open(path).read().splitlines()
    n = len(lines)
    if n == 0:
        return []
    nshards = max(1, min(nshards, n // min_events if n >= min_events else 1))
    has_marks = any('"g":1' in l or '"g": 1' in l for l in lines)
    target = (n + nshards - 1) // nshards
    shards, cur = [], []
    for l in lines:
        if len(cur) >= target and (not has_marks or '"g":1' in l or '"g": 1' in l):
            shards.append(cur)
            cur = []
        cur.append(l)
    if cur:
        shards.append(cur)
    out = []
    off = 0
    for i, s in enumerate(shards):
        p = f"{path}.shard{i}"
        open(p, "w").write("\n".join(s) + "\n")
        out.append((p, off, len(s)))
        off += len(s)
    return out


def run_trace(trace_path, nshards=8, timeout=3000, module="TzRsTrace", min_events=1500):
    """Validate an ndjson trace against the trace specification with TLC (one single-worker JVM per shard).
    Returns dict(events, states, bad=[(global_index0, tag, line_text)])."""
    shards = split_groups(trace_path, nshards, min_events)
    t0 = time.time()
    procs = []
    for (p, off, n) in shards:
        work = p + ".meta"
        shutil.rmtree(work, ignore_errors=True)
        cmd = _tlc_cmd(1, "3g", ("-Xss64m",)) + ["-metadir", work, "-config", os.path.join(SPEC, module + ".cfg"), os.path.join(SPEC, module + ".tla")]
        env = dict(os.environ, TRACE=p)
        procs.append((subprocess.Popen(cmd, cwd=SPEC, env=env, stdout=subprocess.PIPE, stderr=subprocess.STDOUT, text=True), p, off, n, work))
    bad = []
    events = 0
    states = 0
    algo_diff = 0
    algo_samples = []
    for (proc, p, off, n, work) in procs:
        try:
            outp, _ = proc.communicate(timeout=max(10, timeout - (time.time() - t0)))
        except subprocess.TimeoutExpired:
            proc.kill()
            raise ToolError(f"trace validation of {p} timed out")
        shutil.rmtree(work, ignore_errors=True)
        done = None
        for line in outp.splitlines():
            if line.startswith('<<"DONE"'):
                m = re.match(r'^<<"DONE", (\d+), (".*")>>$', line)
                done = (int(m.group(1)), json.loads(json.loads(m.group(2))))
            m = _ws.search(line)
            if m:
                states += int(m.group(2).replace(",", ""))
        if done is None or done[0] != n:
            # An evaluation error inside TLC while judging one event means that event's logged result lies outside the domain of the
            # specification's operators (a string where a number must be, a type index beyond the list ...). The unchanged tree
            # never does this, so it is reported as a disagreement at that event (the rest of the shard stays unjudged). A JVM that
            # was killed, ran out of memory or timed out prints no such message and remains a tool error.
            m_last = None
            if "The error occurred when TLC was evaluating" in outp or "TLC threw an unexpected exception" in outp:
                for m_ in re.finditer(r"^/\\ vL = (\d+)$", outp, re.M):
                    m_last = int(m_.group(1))
            if m_last is not None and 1 <= m_last <= n:
                lines = open(p).read().splitlines()
                why = next((l.strip() for l in outp.splitlines() if l.startswith(": Attempted") or "was not in the domain" in l or "Attempted to" in l), "")
                bad.append((off + m_last - 1, "result-outside-the-specification", lines[m_last - 1], None, [], ["tlc: " + why[:300], f"{n - m_last} later events of this shard not judged"]))
                events += m_last
                os.remove(p)
                continue
            errl = [l for l in outp.splitlines() if "rror" in l][:15]
            raise ToolError(f"trace validation of {p} did not consume the trace ({done and done[0]} of {n}):\n" + "\n".join(errl) + "\n" + outp[-1500:])
        events += n
        badl, infol = done[1]
        for (zi, t) in infol:
            if t == "algo-differs":
                algo_diff += 1
                if len(algo_samples) < 5:
                    algo_samples.append(open(p).read().splitlines()[zi - 1][:600])
        if badl:
            lines = open(p).read().splitlines()
            zinfo = {}
            for (zi, t) in infol:
                zinfo.setdefault(zi, []).append(t)
            zone_at = []          # index (1-based) of the zone-setting event in force at each line
            cur = 0
            for i, ln in enumerate(lines, 1):
                if '"op":"zone"' in ln or '"op":"tzif"' in ln or '"op":"resolve"' in ln or '"op":"fixedzone"' in ln:
                    cur = i
                zone_at.append(cur)
            for (idx, tag) in badl:
                zi = zone_at[idx - 1]
                bad.append((off + idx - 1, tag, lines[idx - 1], lines[zi - 1] if zi and zi != idx else None, zinfo.get(zi, []),
                            zinfo.get(idx, []) if zi != idx else []))
        os.remove(p)
    log(f"[trace] {os.path.basename(trace_path)}: {events} events on {len(shards)} JVMs, {len(bad)} bad, {time.time()-t0:.1f}s")
    return dict(events=events, states=states, bad=bad, seconds=round(time.time() - t0, 1), algo_diff=algo_diff, algo_samples=algo_samples)


# ---------------------------------------------------------------------------------------------
# known findings, verdicts, evidence

def load_known():
    p = os.path.join(VERIF, "known_findings.json")
    if not os.path.exists(p):
        return []
    return json.load(open(p)).get("findings", [])


class Result:
    """Accumulates what one check run explored and found."""

    def __init__(self, pid, tier, seed, level):
        self.pid, self.tier, self.seed, self.level = pid, tier, seed, level
        self.t0 = time.time()
        import glob
        os.makedirs(OUT, exist_ok=True)
        for f in glob.glob(os.path.join(BASE_OUT, "violations", f"{pid}-*.json")):
            os.remove(f)
        self.mc = []            # model-checking runs
        self.vectors = 0        # spec -> impl vectors replayed
        self.events = 0         # impl -> spec events validated
        self.trace_states = 0
        self.samples = []
        self.violations = []    # dicts
        self.known = {}         # key -> count
        self.algo_diff = 0      # events whose result differs from the algorithm layer's walk (Algo.tla); informational
        self.algo_samples = []
        self.notes = {}
        self.assumptions = []
        self.drivers = {}

    def add_mc(self, info):
        self.mc.append(info)

    def violation(self, tag, event, extra=None):
        self.violations.append(dict(tag=tag, event=event, extra=extra))

    def finish(self, extra_cov=None):
        scratch = REPO != "/repo"
        # runs aimed at a scratch copy (seeded changes, mutants) never touch the evidence and violation files of the real tree
        viol_dir = os.path.join(BASE_OUT, "violations" if not scratch else "violations-scratch-" + hashlib.sha1(REPO.encode()).hexdigest()[:10])
        os.makedirs(viol_dir, exist_ok=True)
        known = load_known()
        nviol = 0
        printed_known = set()
        k = 0
        for v in self.violations:
            kf = match_known(known, self.pid, v)
            if kf is not None:
                if kf["key"] not in printed_known:
                    print(f"KNOWN-FINDING: property={self.pid} {kf['key']}: {kf['what']}")
                    printed_known.add(kf["key"])
                self.known[kf["key"]] = self.known.get(kf["key"], 0) + 1
                continue
            nviol += 1
            if k < 20:
                path = os.path.join(viol_dir, f"{self.pid}-{k}.json")
                json.dump(dict(property=self.pid, tier=self.tier, seed=self.seed, **v), open(path, "w"), indent=1)
                print(f"VIOLATION property={self.pid} replay={path}")
                k += 1
        states = sum(m["distinct"] for m in self.mc) + self.trace_states
        transitions = sum(m["states"] for m in self.mc) + self.events
        cov = dict(
            states=max(states, 0), transitions=max(transitions, 0),
            traces_validated_against_impl=self.events + self.vectors,
            spec_to_impl_vectors_replayed=self.vectors, impl_to_spec_events_validated=self.events,
            model_checking_runs=self.mc, drivers=self.drivers,
            samples=self.samples[:5] if self.samples else [{"note": "no events recorded"}],
            known_findings_matched=self.known,
            algorithm_layer_differences=self.algo_diff,
            checker_cmd="tlc (TLC2 1.8.0) on spec/*.tla; harness/target/chk/tzverif run",
        )
        cov.update(self.notes)
        if extra_cov:
            cov.update(extra_cov)
        ev = dict(property_id=self.pid, tier=self.tier, seed=self.seed, level=self.level, coverage=cov,
                  assumptions=self.assumptions or ["TLC/SANY and the CommunityModules Json/IOUtils modules", "harness plumbing (limb/byte formatting, argument passing)", "the TLA+ axioms of spec/*.tla"],
                  wall_s=round(time.time() - self.t0, 1), violations=nviol)
        ev_dir = os.path.join(VERIF, "evidence") if not scratch else os.path.join(BASE_OUT, "evidence-scratch")
        os.makedirs(ev_dir, exist_ok=True)
        json.dump(ev, open(os.path.join(ev_dir, f"{self.pid}.json"), "w"), indent=1)
        import collections
        tags = collections.Counter(v["tag"] for v in self.violations if match_known(known, self.pid, v) is None)
        print("TAGS " + json.dumps(dict(tags)))
        log(f"[{self.pid}] {self.tier}: {self.vectors} vectors, {self.events} events, {nviol} violations, known {self.known}, {ev['wall_s']}s")
        return 1 if nviol else 0


def match_known(known, pid, v):
    for kf in known:
        if kf.get("status") == "fixed":
            continue
        m = kf["matcher"]
        ztags = (v.get("extra") or {}).get("zone_tags", [])
        if "zone_tag" in m and m["zone_tag"] not in ztags:
            continue
        if "event_tag" in m and m["event_tag"] not in (v.get("extra") or {}).get("event_tags", []):
            continue
        if "tags" in m and v["tag"] not in m["tags"]:
            continue
        return kf
    return None


def run_pipeline(res, binary, name, gen_lines=None, vec_path=None, nshards=8, validate=True, min_events=1500, post=None):
    """Execute a batch of events against the crate and validate the recording with the trace spec.
    gen_lines: iterable of event dicts (impl -> spec direction).  vec_path: ndjson of TLC-emitted vectors
    (spec -> impl direction; compared natively through "x", and also trace-validated when validate)."""
    os.makedirs(OUT, exist_ok=True)
    inp = os.path.join(OUT, f"{res.pid}-{name}.in")
    outp = os.path.join(OUT, f"{res.pid}-{name}.ndjson")
    if gen_lines is not None:
        with open(inp, "w") as f:
            for e in gen_lines:
                f.write(json.dumps(e, separators=(",", ":")) + "\n")
    else:
        inp = vec_path
    native_mismatches = []
    stats = run_harness(binary, inp, outp)
    n = stats["events"]
    if n == 0:
        return
    res.drivers[name] = n
    lines = None
    if vec_path is not None:
        res.vectors += n
        if stats["vector_mismatches"]:
            for l in open(outp):
                e = json.loads(l)
                if e.get("m") == 0:
                    native_mismatches.append((l.rstrip("\n"), e))
            if not validate:
                for _l, e in native_mismatches:
                    res.violation("vector-mismatch", strip(e), dict(expected=e.get("x")))
    if post is not None:
        post(outp)
    if validate:
        tr = run_trace(outp, nshards=nshards, min_events=min_events)
        if vec_path is None:
            res.events += tr["events"]
        res.trace_states += tr["states"]
        res.algo_diff += tr["algo_diff"]
        res.algo_samples += tr["algo_samples"][:max(0, 3 - len(res.algo_samples))]
        for (idx, tag, line, zline, ztags, etags) in tr["bad"]:
            e = json.loads(line)
            if tag == "generator-error":
                raise ToolError(f"generator produced an unusable event: {line[:400]}")
            res.violation(tag, strip(e), dict(index=idx, zone_tags=ztags, event_tags=etags, context=strip(json.loads(zline)) if zline else None))
        # a vector that did not match natively AND that the trace specification judged as well is reported once, through the trace
        # verdict above (it carries the zone facts the known-finding matcher needs); one the trace specification let pass is reported here
        judged = {line.rstrip("\n") for (_i, _t, line, *_r) in tr["bad"]}
        for l, e in native_mismatches:
            if l not in judged:
                res.violation("vector-mismatch", strip(e), dict(expected=e.get("x")))
    if len(res.samples) < 6:
        # actual cases of this run: the first event and the first event that is not a zone-setting one
        with open(outp) as f:
            took = 0
            for i, ln in enumerate(f):
                if i > 400 or took >= 2:
                    break
                if len(ln) > 6000:
                    continue
                e = json.loads(ln)
                if took == 0 or e["op"] not in ("zone", "tzif", "resolve", "fixedzone"):
                    res.samples.append(strip(e))
                    took += 1
    if gen_lines is not None:
        os.remove(inp)
    os.remove(outp)


def strip(e):
    return {k: e[k] for k in ("op", "a", "r") if k in e}
