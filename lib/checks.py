"""The registered checks, one function per property."""
import argparse, itertools, json, os, random, shutil, sys, time
import common as C
from common import Result, ToolError, run_mc, run_pipeline, build_harness, log
import gens


def seed_of():
    try:
        return int(os.environ.get("VERIF_SEED", "0"))
    except ValueError:
        return 0


def need_binary(res, profile="chk"):
    b, err = build_harness(profile)
    if b is None:
        # the crate under test (or the harness against it) does not build: nothing can be observed
        raise ToolError("harness build failed:\n" + err)
    return b


def tla_set(xs):
    return "{" + ", ".join(str(x) for x in xs) + "}"


# ---------------------------------------------------------------------------------------------

def cal_years(tier, seed):
    if tier == "thorough":
        return list(range(400))
    rng = random.Random(seed)
    fixed = [0, 1, 3, 4, 99, 100, 101, 199, 200, 299, 300, 368, 369, 370, 371, 372, 399]
    return sorted(set(fixed + rng.sample(range(400), 23)))


def mc_calendar(res, tier, seed, vec_path):
    years = cal_years(tier, seed)
    if tier == "thorough":
        consts = dict(Years=tla_set(years), EmitVec="TRUE", Cycles="<- CyclesThorough", Secs=tla_set([0, 86399]), Mod=1, Rem=0)
    else:
        consts = dict(Years=tla_set(years), EmitVec="TRUE", Cycles="<- CyclesQuick", Secs=tla_set([0, 86399]), Mod=3, Rem=seed % 3)
    info = run_mc("MC_Calendar", consts, workers=C.NCPU, vec_out=vec_path, timeout=3000)
    info["years_walked"] = len(years)
    res.add_mc(info)
    # the algorithm layer of the calendar (AlgoCal.tla: the code's division cascade from 2000-03-01, the two year formulas, week day,
    # year day) is part of Inv above (AlgoCalOK); the cascade without its clamps must NOT refine the axioms (February 29th is the last
    # day of a 4-year block, and in year 0 of the cycle also of the 400-year block)
    res.notes.setdefault("witnesses", []).append(C.expect_violated("MC_Calendar", dict(Years="{0, 4}", EmitVec="FALSE", Cycles="{4}", Secs="{0}", Mod=1, Rem=0), "W_NoClamp"))
    res.notes["algorithm_layer_calendar"] = "AlgoCal.tla (from_timespec cascade, days_since_unix_epoch, week_day, year_day, floor fix-ups) = axiomatic calendar on every walked day x 5 year bases"
    if tier == "thorough":
        res.notes["apalache_unbounded_lemmas"] = C.run_apalache("Apa_Calendar", "Lemmas")


def check_C01(tier, seed):
    res = Result("C01", tier, seed, "model_checking")
    binary = need_binary(res)
    rng = random.Random(seed * 7919 + 1)
    vec = os.path.join(C.OUT, "C01-vectors.ndjson")
    mc_calendar(res, tier, seed, vec)
    # spec -> impl: only the gmtime vectors belong to C01 (timegm ones are replayed by C02)
    sel = os.path.join(C.OUT, "C01-vec-gmtime.ndjson")
    with open(sel, "w") as f:
        for l in open(vec):
            if '"op":"gmtime"' in l:
                f.write(l)
    run_pipeline(res, binary, "vec", vec_path=sel, validate=False)
    n = 20000 if tier == "quick" else 300000
    run_pipeline(res, binary, "random", gen_lines=gens.gen_gmtime(rng, n), nshards=8 if tier == "quick" else 16)
    if tier == "thorough":
        # every second of one day through TLC, then the native factorisation lemmas: together with the vectors for every day of the
        # cycle at 00:00:00 they cover every instant of the supported range (date depends on the day only, time on the second only,
        # cycles shift the year by 400)
        import subprocess
        run_pipeline(res, binary, "all-seconds", gen_lines=({"op": "gmtime", "a": {"t": C.W(946684800 + s), "ns": 0, "via": "utc"}} for s in range(86400)), nshards=16)
        brel, err = build_harness("rel")
        if brel is None:
            raise ToolError("release build failed: " + err)
        lout = os.path.join(C.OUT, "C01-lemma.ndjson")
        r = subprocess.run([brel, "lemma", str(C.NCPU), lout], capture_output=True, text=True, timeout=3600)
        if r.returncode != 0:
            raise ToolError("native lemma run failed: " + r.stderr[-500:])
        st = json.loads(r.stdout.strip().splitlines()[-1])
        res.notes["native_factorisation_lemmas"] = st
        res.notes["exhaustive"] = True
        for l in open(lout):
            e = json.loads(l)
            res.violation("C01-factorisation-lemma-" + e.get("lemma", "?"), C.strip(e))
        os.remove(lout)
    res.notes["rule"] = "vectors: every day of the walked years x cycle indices x seconds of day emitted by MC_Calendar; events: seeded instants (uniform, range ends, year/century/cycle boundaries, negative remainders, i64 extremes) through UtcDateTime::from_timespec and DateTime::from_timespec(utc)"
    os.remove(vec); os.remove(sel)
    return res.finish()


def check_C02(tier, seed):
    res = Result("C02", tier, seed, "model_checking")
    binary = need_binary(res)
    rng = random.Random(seed * 7919 + 2)
    vec = os.path.join(C.OUT, "C02-vectors.ndjson")
    mc_calendar(res, tier, seed, vec)
    sel = os.path.join(C.OUT, "C02-vec-timegm.ndjson")
    with open(sel, "w") as f:
        for l in open(vec):
            # calendar -> Unix -> calendar is the identity: the timegm vector of a date and the gmtime vector of the instant it denotes
            # are both replayed here (the gmtime half alone is C01's)
            if '"op":"timegm"' in l or '"op":"gmtime"' in l:
                f.write(l)
    run_pipeline(res, binary, "vec", vec_path=sel, validate=False)
    n = 15000 if tier == "quick" else 200000
    run_pipeline(res, binary, "fields", gen_lines=gens.gen_timegm(rng, n), nshards=8 if tier == "quick" else 16)
    run_pipeline(res, binary, "order", gen_lines=gens.gen_utccmp(rng, n // 3), nshards=4)
    res.notes["rule"] = "vectors: every date of the walked years (plus second 60 and the day after each month end) x cycle indices; events: seeded field tuples (70% valid, all u8 corner values, i32 extremes) through UtcDateTime::new and DateTime::new(utc); pairs for the derived order"
    os.remove(vec); os.remove(sel)
    return res.finish()


def check_C16(tier, seed):
    res = Result("C16", tier, seed, "model_checking")
    binary = need_binary(res)
    rng = random.Random(seed * 7919 + 16)
    vec = os.path.join(C.OUT, "C16-vectors.ndjson")
    res.add_mc(run_mc("MC_Nanos", dict(R=300 if tier == "quick" else 2500, EmitVec="TRUE"), workers=C.NCPU, vec_out=vec))
    run_pipeline(res, binary, "vec", vec_path=vec, validate=False)
    n = 20000 if tier == "quick" else 300000
    run_pipeline(res, binary, "random", gen_lines=gens.gen_nanos(rng, n), nshards=8 if tier == "quick" else 16)
    run_pipeline(res, binary, "ns-validation", gen_lines=gens.gen_ns_validation(rng, 2000 if tier == "quick" else 40000), nshards=4)
    run_pipeline(res, binary, "through-zones", gen_lines=gens.gen_nanos_zone(rng, 60 if tier == "quick" else 1500), nshards=4)
    res.notes["rule"] = "vectors: every count within R of 19 anchors (multiples of 1e9, i64/i128 ends of the seconds and of the count itself, date-time range ends); events: seeded i128 counts (log-uniform, anchors incl. the 2^31..2^64 word sizes of the count, zero crossings) through the three from_total_nanoseconds constructors; counts at the range ends through fixed-offset zones"
    if tier != "quick":
        # split / join laws for EVERY integer count (floor is forced by 0 <= r < 10^9; uniqueness, monotonicity, successor): TLAPS
        res.notes["tlaps_unbounded_proofs"] = [C.run_tlapm("proofs/NanosSplit.tla")]
    os.remove(vec)
    return res.finish()


# ---------------------------------------------------------------------------------------------
# zones

def zone_vectors(res, tier, seed, ops, tag):
    """Run the scaled zone model (spec-level theorems + vector emission), group the vectors by zone and keep
    the operations in `ops`. Returns the path of the grouped vector file."""
    raw = os.path.join(C.OUT, f"{res.pid}-zonevec-raw.ndjson")
    maxtr = 2 if tier == "quick" else 3
    consts = dict(MaxTr=maxtr, EmitVec="TRUE", EmitMod=3 if tier == "quick" else 1, EmitRem=seed % 3 if tier == "quick" else 0)
    res.add_mc(run_mc("MC_Zone", consts, workers=C.NCPU, vec_out=raw, timeout=6000, tag=tag, xmx="12g"))
    groups = {}
    order = []
    for l in open(raw):
        v = json.loads(l)
        if v["op"] not in ops:
            continue
        zk = json.dumps(v.pop("zk"), sort_keys=True)
        if zk not in groups:
            groups[zk] = []
            order.append(zk)
        groups[zk].append(v)
    out = os.path.join(C.OUT, f"{res.pid}-zonevec.ndjson")
    with open(out, "w") as f:
        for zk in order:
            f.write(json.dumps({"op": "zone", "a": json.loads(zk), "g": 1}, separators=(",", ":")) + "\n")
            for v in groups[zk]:
                f.write(json.dumps(v, separators=(",", ":")) + "\n")
    os.remove(raw)
    return out


def events_of(*gens_):
    for g in gens_:
        yield from g


def check_C03(tier, seed):
    res = Result("C03", tier, seed, "model_checking")
    binary = need_binary(res)
    rng = random.Random(seed * 7919 + 3)
    vec = zone_vectors(res, tier, seed, {"lookup", "localtime"}, "C03")
    run_pipeline(res, binary, "vec", vec_path=vec, validate=True, nshards=16)
    os.remove(vec)
    q = tier == "quick"
    run_pipeline(res, binary, "sweep", gen_lines=gens.gen_c03_sweep(rng, 64 if q else 300), nshards=8 if q else 16)
    run_pipeline(res, binary, "extreme", gen_lines=itertools.chain(gens.gen_c03_extreme(rng, 150 if q else 3000), gens.gen_project_sec60(rng, 60 if q else 1200)), nshards=4 if q else 16)
    run_pipeline(res, binary, "leap-only", gen_lines=events_of(gens.gen_leap_only_zones(rng, 30 if q else 600), gens.gen_signed_leap_run_zones(rng, 6 if q else 200)), nshards=2 if q else 8)
    # 'at or after the last transition: whatever the trailing rule prescribes' - tables (often on the leap scale) handing over to a DST rule
    run_pipeline(res, binary, "table-then-rule", gen_lines=events_of(*(gens.gen_rule_zone_session(rng, gens.corpus_rule(i) if i % 2 else gens.rand_rule(rng), with_table=True, do_find=False, nprobe=40, leaps=(i % 3 != 0))
                                                                  for i in range(16 if q else 400))), nshards=4 if q else 16)
    run_pipeline(res, binary, "random", gen_lines=events_of(*(gens.gen_zone_session(rng, gens.gen_table_zone(rng, nmax=20), do_find=False) for _ in range(150 if q else 3000))), nshards=8 if q else 16)
    if not q:
        # algorithm layer: the binary search and the forward leap scan, as PlusCal shaped like the Rust, refine the declarative definitions
        res.add_mc(run_mc("AlgoSearch", dict(MaxLen=4, MaxVal=6), invariants=("Refines",), workers=8, timeout=3000, extra_cfg="PROPERTY Terminates\n", xmx="8g"))
        # the same loop for a table of ANY length: machine-checked proof (TLAPS) that Ok(v) => v + 1 / Err(v) => v is the number of entries <= x
        res.notes["tlaps_unbounded_proofs"] = [C.run_tlapm("proofs/BinSearch.tla")]
    res.notes["rule"] = "vectors: every zone of the scaled model (<= MaxTr transitions on 0..6, 5 type menus, 6 leap tables, rule none/fixed) x instants -7..14; events: table-length sweep 0..n with probes at every T-1/T/T+1, i64-extreme transition times, seeded random zones"
    return res.finish()


def check_C12(tier, seed):
    res = Result("C12", tier, seed, "model_checking")
    binary = need_binary(res)
    rng = random.Random(seed * 7919 + 12)
    vec = zone_vectors(res, tier, seed, {"lookup", "find"}, "C12")
    run_pipeline(res, binary, "vec", vec_path=vec, validate=True, nshards=16)
    os.remove(vec)
    q = tier == "quick"
    run_pipeline(res, binary, "leaps", gen_lines=gens.gen_c12(rng, 120 if q else 3000), nshards=8 if q else 16)
    res.notes["rule"] = "vectors: scaled zones with leap tables (one record +-1 at 0/2/3/4) x instants; events: random valid leap tables (<= 40 records, both signs) and the real 27-record table with transitions at/around records; lookups reveal the forward conversion, Skipped entries the inverse"
    if tier != "quick":
        # the forward leap scan and the (repaired) inverse conversion for a table of ANY length agree with the physical reading of the
        # records: machine-checked proofs (TLAPS); without the repair of 9d809bc the inverse's proof fails
        res.notes["tlaps_unbounded_proofs"] = [C.run_tlapm("proofs/LeapScan.tla"), C.run_tlapm("proofs/LeapInverse.tla")]
    return res.finish()


def check_C13(tier, seed):
    res = Result("C13", tier, seed, "model_checking")
    binary = need_binary(res)
    rng = random.Random(seed * 7919 + 13)
    raw = os.path.join(C.OUT, "C13-vectors-raw.ndjson")
    res.add_mc(run_mc("MC_Validity", dict(EmitVec="TRUE"), workers=C.NCPU, vec_out=raw, timeout=3000))
    run_pipeline(res, binary, "vec", vec_path=raw, validate=True, nshards=8)
    os.remove(raw)
    q = tier == "quick"
    run_pipeline(res, binary, "defects", gen_lines=gens.gen_c13(rng, 3000 if q else 60000), nshards=8 if q else 16)
    run_pipeline(res, binary, "junction", gen_lines=itertools.chain(gens.gen_c13_long_designations(), gens.gen_extreme_leap_pairs(), gens.gen_c13_leap_rule_junction(rng, 60 if q else 1500), gens.gen_c13_leap_defect_rule_junction(rng, 60 if q else 1500)), nshards=6 if q else 16, min_events=150)
    res.notes["rule"] = "vectors: every small zone tuple of MC_Validity (valid ones and each defect); events: seeded valid zones with exactly one defect of each kind (index, order, leap table, rule disagreement in one attribute, i64 extremes), local time types over length 0..9 designations"
    return res.finish()


def check_find(pid, tier, seed):
    res = Result(pid, tier, seed, "model_checking")
    binary = need_binary(res)
    rng = random.Random(seed * 7919 + int(pid[1:]))
    vec = zone_vectors(res, tier, seed, {"find"}, pid)
    if pid == "C17":
        mc_sessions(res, binary, tier, seed)
        # turn every search vector into buffer-based searches with every buffer length 0..4 (k <= 4 in the scaled model)
        v2 = vec + ".n"
        with open(v2, "w") as f:
            for l in open(vec):
                e = json.loads(l)
                if e["op"] == "find":
                    for n in rng.sample(range(0, 6), 2):
                        a = dict(e["a"]); a["n"] = n
                        f.write(json.dumps({"op": "findn", "a": a}, separators=(",", ":")) + "\n")
                else:
                    f.write(l)
        os.replace(v2, vec)
    run_pipeline(res, binary, "vec", vec_path=vec, validate=True, nshards=16)
    os.remove(vec)
    q = tier == "quick"
    run_pipeline(res, binary, "zones", gen_lines=gens.gen_find_zones(rng, 200 if q else 4000, findn=(pid == "C17")), nshards=8 if q else 16)
    if pid in ("C05", "C06") and not q:
        # the rule half of the search for EVERY interleaving rule, year and table end: machine-checked proof (TLAPS) that the
        # window walk returns exactly the candidates >= the table end whose clock shows the searched time
        # ... and the table half for a table of ANY length: the loop over the transitions returns exactly the instants before the last
        # transition at which the table's clock shows the searched time, exactly the structural gaps, in non-decreasing order
        res.notes["tlaps_unbounded_proofs"] = [C.run_tlapm("proofs/RuleWindow.tla"), C.run_tlapm("proofs/TableWalk.tla")]
    if pid in ("C05", "C06"):
        # the recorded finding K1 reproduced at the specification level: on an accepted rule whose yearly periods overlap, the
        # window walk of the algorithm layer (Algo.tla, shaped like find_date_time) returns an entry twice
        res.notes["witnesses"] = [C.expect_violated("MC_Rule", dict(DayIds="{8,729}", TimeIdx="{1,8}", OffIdx="{1}", Years="{3,4}", EmitVec="FALSE", Cycle=5), "W_K1")]
    if pid in ("C05", "C06"):
        # the buffer-based search offers the same results and accessors: the same kinds of zones searched into a reused buffer
        run_pipeline(res, binary, "zones-buffer", gen_lines=gens.gen_find_zones(rng, (40 if pid == "C05" else 60) if q else 1000, findn=True), nshards=8 if q else 16)
    res.notes["rule"] = "vectors: every zone of the scaled model x local seconds -7..14 (expected list and accessors emitted where instants are pairwise distinct); events: seeded valid zones (1..40 transitions, small/tiny/full-range offsets, gaps smaller than offset differences, leap tables, fixed rule), rule-only zones and tables ending at a rule-generated transition (corpus-shaped and seeded DST rules; the four boundary seconds T+a-1, T+a, T+b-1, T+b of every rule transition of three years and of the junction; New Year), searches at the ends of the supported range; local times within one second of every transition +- offset"
    return res.finish()


def _dt_arg(dt):
    return {"t": dt["u"], "ns": dt["ns"], "type": {"off": dt["off"], "dst": dt["dst"], "des": dt["des"]}}


def session_events(sess, dirs, vfs, k):
    """One behaviour of the system model (MC_Session: the sequence of `last` observations) as harness events. Directly comparable
    observations go into "x" (compared natively by the executor), the others into "sx" (compared by session_mismatches)."""
    # a client session starts with no zone (UTC) and an empty buffer: the group mark, on a constructor of the UTC zone
    out = [{"op": "fixedzone", "a": {"off": 0}, "g": 1}]
    for c in sess:
        op, a = c["op"], c["a"]
        r = c.get("r")
        x = None if r is None else [r]
        if op == "zone":
            a2 = dict(a); a2["via"] = "owned"
            out.append({"op": "zone", "a": a2, "sx": {"accepted": c["accepted"], "errs": c["errs"]}})
        elif op == "tzif":
            out.append({"op": "tzif", "a": {"bytes": a}, "sx": {"accepted": c["accepted"]}})
        elif op == "resolve":
            out.append({"op": "resolve", "a": {"s": a, "dirs": dirs, "vfs": vfs, "via": "posix"}, "sx": {"kind": c["kind"]}})
        elif op == "lookup":
            out.append({"op": "lookup", "a": {"u": a, "via": "ref" if k % 2 else "owned"}, "x": x})
        elif op == "localtime":
            out.append({"op": "localtime", "a": {"u": a, "ns": 0}, "x": x})
        elif op == "gmtime":
            out.append({"op": "gmtime", "a": {"t": a, "ns": 0, "via": "dt"}, "x": x})
        elif op == "timegm":
            out.append({"op": "timegm", "a": dict(a, ns=0, via="dt"), "x": x})
        elif op == "fromnanos":
            out.append({"op": "fromnanos", "a": {"N": a, "via": "zone"}, "x": x})
        elif op == "find":
            out.append({"op": "find", "a": dict(a, ns=0), "sx": {"list": c["list"], "acc": c["acc"]}})
        elif op == "findn":
            out.append({"op": "findn", "a": dict(a, ns=0, n=c["n"]), "sx": {"count": c["count"], "exh": c["exh"], "data": c["data"], "full": c["full"]}})
        elif op == "project":
            out.append({"op": "project", "a": dict(_dt_arg(a), via="dt"), "sx": {"r": r}})
        elif op == "render":
            ra = {"t": a["u"], "ns": a["ns"], "off": a["off"], "via": "ts"}
            if a["des"]:
                ra.update(dst=a["dst"], des=a["des"])
            out.append({"op": "rendert", "a": ra, "sx": {"text": c["text"]}})
        elif op == "cmp":
            out.append({"op": "dtcmp", "a": {"a": _dt_arg(a), "b": _dt_arg(c["b"])}, "sx": {"ord": c["ord"]}})
        elif op == "rule":
            out.append({"op": "rule", "a": a, "sx": {"accepted": c["accepted"], "errs": c["errs"]}})
            if c["accepted"]:
                out.append({"op": "zone", "a": dict(c["za"], via="owned"), "sx": {"accepted": True, "errs": []}})
        elif op == "tzstring":
            via = "v3" if c["ext"] else ("settings" if k % 2 else "v2")
            out.append({"op": "tzstring", "a": {"s": a, "via": via}, "sx": {"accepted": c["accepted"]}})
            if c["accepted"]:
                out.append({"op": "zone", "a": dict(c["za"], via="owned"), "sx": {"accepted": True, "errs": []}})
        else:
            raise ToolError("system model emitted an unknown call: " + op)
    return out


def _canon(v):
    return json.dumps(v, sort_keys=True)


def session_mismatch(e):
    """The observation the system model prescribes (sx) against what the crate returned (r); None if they agree. Entries with
    equal instants may come in any order (C06 leaves ties open): lists are compared as multisets, the trace spec checks the order."""
    sx, r, op = e["sx"], e["r"], e["op"]
    ok = r.get("ok") if isinstance(r, dict) else None
    if isinstance(r, dict) and ("panic" in r or "arg" in r):
        return "panic-or-unusable"
    if op in ("zone", "tzif", "rule", "tzstring"):
        if sx["accepted"] != (ok is not None):
            return "acceptance differs"
        if ok is None and sx.get("errs") and r.get("err") not in sx["errs"]:
            return "error kind differs"
    elif op == "resolve":
        if (sx["kind"] == "zone") != (ok is not None):
            return "resolution outcome differs"
    elif op == "find":
        if ok is None or sorted(map(_canon, ok["list"])) != sorted(map(_canon, sx["list"])):
            return "list differs"
        for acc in ("unique", "earliest", "latest"):
            if len(ok[acc]) != len(sx["acc"][acc]):
                return acc + " differs"
    elif op == "findn":
        res = r.get("res", {}).get("ok") if isinstance(r.get("res"), dict) else None
        if res is None or res["count"] != sx["count"] or bool(res["exh"]) != sx["exh"] or len(res["data"]) != len(sx["data"]):
            return "count / exhaustive / number of written slots differ"
        full = r.get("full", {}).get("ok")
        if full is None or sorted(map(_canon, full["list"])) != sorted(map(_canon, sx["full"])):
            return "allocating list differs"
    elif op == "project":
        want = sx["r"]
        if "ok" in want:
            if ok is None or ok["dst"] != want["ok"]:
                return "projected date-time differs"
        elif r.get("err") != want.get("err"):
            return "projection error differs"
    elif op == "rendert":
        if ok is None or ok["text"] != sx["text"]:
            return "text differs"
    elif op == "dtcmp":
        if ok is None or ok["ord"] != sx["ord"]:
            return "order differs"
    return None


def mc_sessions(res, binary, tier, seed):
    """Spec -> impl at the level of the system: every behaviour of the bounded TzRs machine (all sequences of MaxSteps API calls over
    the menus of MC_TzRs; MC_Session carries the history) is replayed as one client session of the real crate - same zone, same
    buffer, same date-time values carried from call to call - every observation compared with the model's, and the recording
    validated by the trace specification as well."""
    q = tier == "quick"
    consts = {k: f"<- {k}C" for k in ("Zones", "Instants", "LocalTimes", "Files", "TzValues", "Dirs", "Vfs", "Rules", "TzStrings", "Nanos")}
    if not q:
        # thorough: the invariants and action properties on all sessions of three calls (no history variable: 3 calls over these menus are
        # ~7e5 paths); the replay below stays at two calls per session, every session trace-validated
        res.add_mc(run_mc("MC_TzRs", dict(consts, MaxSteps=3), invariants=("Invariants",), workers=C.NCPU, timeout=6000, xmx="12g", extra_cfg="PROPERTY FrameOK\nPROPERTY BufFrame\n"))
    consts.update(MaxSteps=2, EmitMod=1, EmitRem=0)
    raw = os.path.join(C.OUT, f"{res.pid}-sessions.raw")
    os.makedirs(C.OUT, exist_ok=True)
    # one TLC run: the system model's invariants and action properties on every behaviour, and the behaviours printed for the replay
    info = run_mc("MC_Session", consts, invariants=("Invariants", "Inv"), spec="HSpec", workers=C.NCPU, timeout=6000, xmx="12g", vec_out=raw,
                  extra_cfg="PROPERTY FrameOK\nPROPERTY BufFrame\n")
    res.add_mc(info)
    evs = os.path.join(C.OUT, f"{res.pid}-sessions.in")
    evs2 = os.path.join(C.OUT, f"{res.pid}-sessions-validated.in")
    nsess = nval = 0
    with open(evs, "w") as f, open(evs2, "w") as f2:
        for k, l in enumerate(open(raw)):
            v = json.loads(l)
            lines = [json.dumps(e, separators=(",", ":")) + "\n" for e in session_events(v["session"], v["dirs"], v["vfs"], k)]
            f.writelines(lines)
            if not q or k % 5 == seed % 5:
                f2.writelines(lines); nval += 1
            nsess += 1
    os.remove(raw)

    def post(outp):
        for l in open(outp):
            e = json.loads(l)
            if "sx" in e:
                why = session_mismatch(e)
                if why:
                    res.violation("session-observation-differs", C.strip(e), dict(expected=e["sx"], why=why))
    # every session: executed, every observation compared with the model's; one session in five also validated by the trace specification
    run_pipeline(res, binary, "sessions", vec_path=evs, validate=False, post=post)
    run_pipeline(res, binary, "sessions-validated", vec_path=evs2, validate=True, nshards=16)
    os.remove(evs); os.remove(evs2)
    res.notes["system_model_sessions_trace_validated"] = nval
    res.notes["system_model_sessions_replayed"] = nsess


def check_C14(tier, seed):
    res = Result("C14", tier, seed, "model_checking")
    binary = need_binary(res)
    rng = random.Random(seed * 7919 + 14)
    vecraw = os.path.join(C.OUT, "C14-vectors.ndjson")
    mc_calendar(res, tier, seed, vecraw)
    os.remove(vecraw)
    mc_sessions(res, binary, tier, seed)
    q = tier == "quick"
    run_pipeline(res, binary, "constructors", gen_lines=gens.gen_c14(rng, 20000 if q else 300000), nshards=8 if q else 16)
    run_pipeline(res, binary, "find-entries", gen_lines=gens.gen_find_zones(rng, 60 if q else 1500), nshards=8 if q else 16)
    res.notes["rule"] = "MC_Calendar checks DtInv on constructed values for every walked day; events: five constructors, projection and comparison over the whole instant range and i32 offsets; every date-time inside every search result"
    return res.finish()


def run_mc_sharded(res, module, base_consts, shard_key, shards, vec_out, workers_each, timeout=3000, tag=None):
    """Run several TLC instances of the same model with different values of one constant (parallel JVMs)."""
    import threading
    infos, errs = [None] * len(shards), []
    def one(i, val):
        try:
            c = dict(base_consts); c[shard_key] = val
            infos[i] = run_mc(module, c, workers=workers_each, vec_out=f"{vec_out}.{i}", timeout=timeout, tag=f"{tag or module}-{i}", xmx="3g")
        except Exception as e:   # noqa
            errs.append(e)
    ths = [threading.Thread(target=one, args=(i, v)) for i, v in enumerate(shards)]
    [t.start() for t in ths]; [t.join() for t in ths]
    if errs:
        raise errs[0]
    with open(vec_out, "w") as out:
        for i in range(len(shards)):
            p = f"{vec_out}.{i}"
            if os.path.exists(p):
                out.write(open(p).read()); os.remove(p)
    for inf in infos:
        res.add_mc(inf)


ALL_DAY_IDS = list(range(1, 1152))
STRUCT_DAY_IDS = [1, 2, 31, 32, 59, 60, 61, 90, 364, 365, 366, 367, 424, 425, 426, 730, 731,          # ... J364 J365 ; 0 1 58 59 60 364 365          # J1 J59 J60.. ; 0 1 58 59 60 365
                  732, 766, 767, 795, 801, 802, 830, 836, 1011, 1046, 1116, 1117, 1145, 1151]  # M1.1.0 M1.5.6 M2.1.0 M2.5.0 M3.* M9/M10 M11.5.6 M12.*


def m_id(m, w, d):
    return 732 + (m - 1) * 35 + (w - 1) * 7 + d


# Mm.w.d notations in the same and adjacent months (incl. December/January) with every week: the case analysis of the constructor
# week days 0, 1, 3 realise every difference 0..6 between two week days
M_FAMILY = sorted({m_id(m, w, d) for m in (1, 2, 3, 4, 12) for w in (1, 2, 3, 4, 5) for d in (0, 1, 3)})
M_MONTH_PAIRS = [(12, 12), (12, 1), (1, 1), (1, 2), (2, 2), (2, 3), (3, 3), (3, 4), (4, 4)]


def j_id(n):
    return n            # Jn, n = 1..365


def z_id(n):
    return 366 + n      # zero-based n, n = 0..365


def c11_pairs(rng, quick):
    """Ordered pairs of day-notation ids for C11: the structural families in which the constructor's case analysis has its
    breakpoints (year wrap, month boundaries, same/adjacent months, Feb 28/29), both orders, plus a seeded random sample."""
    CUM = [0, 31, 59, 90, 120, 151, 181, 212, 243, 273, 304, 334, 365]
    pairs = set()
    def both(a, b):
        pairs.add((a, b)); pairs.add((b, a))
    early = [j_id(1), j_id(2), j_id(7), j_id(8), z_id(0), z_id(1), z_id(6)] + [m_id(1, w, d) for w in (1, 2) for d in (0, 3, 6)]
    late = [j_id(365), j_id(364), j_id(358), z_id(365), z_id(364), z_id(358)] + [m_id(12, w, d) for w in (4, 5) for d in (0, 3, 6)]
    for a in early:
        for b in late:
            both(a, b)                                                          # the year wrap
    months = range(1, 13) if not quick else rng.sample(range(1, 13), 5) + [2]
    for m in months:
        lo, hi = CUM[m - 1] + 1, CUM[m]                                          # Julian days (1-based, common year) of month m
        jdays = [lo, lo + 6, lo + 7, lo + 13, lo + 14, lo + 20, lo + 21, hi - 7, hi - 6, hi, hi + 1, lo - 1]
        for jd in jdays:
            if 1 <= jd <= 365:
                for w in (1, 2, 3, 4, 5):
                    for d in ((0, 3) if quick else (0, 1, 3)):
                        both(j_id(jd), m_id(m, w, d))
                        both(z_id(jd - 1), m_id(m, w, d))
                        if m < 12 and jd >= hi - 7:
                            both(j_id(jd), m_id(m + 1, 1, d))
    for (a, b) in [(59, 60), (60, 61), (58, 59)]:
        both(j_id(a), j_id(b)); both(j_id(a), z_id(b)); both(z_id(a), z_id(b)); both(z_id(a - 1), j_id(b)); both(j_id(a), z_id(a)); both(j_id(b), z_id(b - 1))
    # Mm.w.d against Mm'.w'.d' in the same or in adjacent months (the only M/M pairs whose order can flip), both orders
    mm = []
    for (m1, m2) in M_MONTH_PAIRS:
        for w1 in range(1, 6):
            for w2 in range(1, 6):
                for d1 in (0, 1, 3):
                    for d2 in (0, 1, 3):
                        mm.append((m_id(m1, w1, d1), m_id(m2, w2, d2)))
                        mm.append((m_id(m2, w2, d2), m_id(m1, w1, d1)))
    mm = sorted(set(mm))
    for p in (mm if not quick else rng.sample(mm, len(mm) // 2)):
        pairs.add(p)
    for _ in range(300 if quick else 3000):
        pairs.add((rng.choice(ALL_DAY_IDS), rng.choice(ALL_DAY_IDS)))
    return pairs


def group_by_zone(raw, out, ops=None):
    groups, order = {}, []
    for l in open(raw):
        v = json.loads(l)
        if ops and v["op"] not in ops:
            continue
        zk = json.dumps(v.pop("zk"), sort_keys=True)
        if zk not in groups:
            groups[zk] = []; order.append(zk)
        groups[zk].append(v)
    with open(out, "w") as f:
        for zk in order:
            f.write(json.dumps({"op": "zone", "a": json.loads(zk), "g": 1}, separators=(",", ":")) + "\n")
            for v in groups[zk]:
                f.write(json.dumps(v, separators=(",", ":")) + "\n")


def check_C04(tier, seed):
    res = Result("C04", tier, seed, "model_checking")
    binary = need_binary(res)
    rng = random.Random(seed * 7919 + 4)
    q = tier == "quick"
    days = sorted(set(rng.sample(STRUCT_DAY_IDS, 6 if q else 11) + rng.sample(ALL_DAY_IDS, 3 if q else 7)))
    years = sorted(set(rng.sample([0, 3, 4, 99, 100, 399], 2 if q else 6) + rng.sample(range(400), 2 if q else 8)))
    raw = os.path.join(C.OUT, "C04-vectors-raw.ndjson")
    consts = dict(DayIds=tla_set(days), TimeIdx=tla_set(rng.sample(range(1, 11), 3 if q else 4)), OffIdx=tla_set(rng.sample(range(1, 8), 3 if q else 4)),
                  Years=tla_set(years), EmitVec="TRUE", Cycle=rng.choice([4, 5, 5, 6, "<- CycleNeg"]))
    res.add_mc(run_mc("MC_Rule", consts, workers=C.NCPU, vec_out=raw, timeout=6000, xmx="12g"))
    # the recorded finding K2 reproduced at the specification level: the 12-leaf evaluator of the algorithm layer (Algo.tla)
    # does not refine the period definition on the coincident-south rule EST5EDT,59/25,J60
    res.notes["witnesses"] = [C.expect_violated("MC_Rule", dict(DayIds="{425,60}", TimeIdx="{5,7}", OffIdx="{2}", Years="{3,4}", EmitVec="FALSE", Cycle=5), "W_K2")]
    vec = os.path.join(C.OUT, "C04-zonevec.ndjson")
    group_by_zone(raw, vec); os.remove(raw)
    run_pipeline(res, binary, "vec", vec_path=vec, validate=True, nshards=16)
    os.remove(vec)
    run_pipeline(res, binary, "rules", gen_lines=gens.gen_c04(rng, 400 if q else 8000), nshards=12 if q else 16)
    if not q:
        # the 12-leaf evaluator against the period definition for EVERY interleaving rule and year (S, E, New Year as unconstrained
        # functions under the hypotheses MC_Rule checks as NearOK): machine-checked proof (TLAPS); the southern case needs E(y) < S(y)
        # in the current year - exactly what the recorded finding K2 violates
        res.notes["tlaps_unbounded_proofs"] = [C.run_tlapm("proofs/RuleTree.tla")]
    res.notes["rule"] = "vectors: family of accepted rules (day-notation representatives x times x offset pairs) probed at S(y)-1, S(y), E(y)-1, E(y), New Year +-1 for sampled years of a cycle; events: corpus-shaped and seeded random accepted rules (all nine notation pairs, near-coincident days, |time| up to 7 days, offsets over the whole window) probed at S/E(y-1..y+1) +-1 s, New Year +-1 s/h/d, the year guard"
    return res.finish()


def check_C11(tier, seed):
    res = Result("C11", tier, seed, "model_checking")
    binary = need_binary(res)
    rng = random.Random(seed * 7919 + 11)
    q = tier == "quick"
    raw = os.path.join(C.OUT, "C11-vectors-raw.ndjson")
    pairs = c11_pairs(rng, q)
    enc = lambda ps: tla_set(sorted({s * 2000 + e for (s, e) in ps}))
    # literal 400-year definition on a sub-sample, derived decision on all selected pairs
    res.add_mc(run_mc("MC_Cons", dict(Pairs=enc(rng.sample(sorted(pairs), 48)), EmitVec="FALSE", Literal="TRUE", CheckAgree="TRUE"), workers=C.NCPU, tag="C11-literal", timeout=3000))
    res.add_mc(run_mc("MC_Cons", dict(Pairs=enc(pairs), EmitVec="TRUE", Literal="FALSE", CheckAgree="FALSE"), workers=C.NCPU, vec_out=raw, timeout=6000, xmx="12g"))
    run_pipeline(res, binary, "vec", vec_path=raw, validate=False)
    os.remove(raw)
    run_pipeline(res, binary, "rules", gen_lines=gens.gen_c11(rng, 6000 if q else 100000), nshards=12 if q else 16)
    res.notes["rule"] = "vectors: for each selected ordered pair of day notations, the constructor is called at every decision breakpoint k*86400 + {-1,0,1} of d (several time/offset splits incl. window edges); events: seeded rules (80% with start/end days within 20 days), window-edge offsets and times, invalid rule days"
    res.notes["pairs_selected"] = len(pairs)
    if not q:
        # every ordered pair of the 1 151 day notations: TLC prints, per pair, the verdict at every decision breakpoint of d
        # (16 JVMs, each a range of start ids); a native sweep calls the real constructor at each of them through eight splits
        import subprocess
        table = os.path.join(C.OUT, "C11-allpairs.ndjson")
        bounds = [(1 + i * 72, min(1151, (i + 1) * 72)) for i in range(16)]
        class _S:  # collect mc infos of the shards
            pass
        infos = []
        import threading
        errs = []
        def one(i, lo, hi):
            try:
                infos.append(run_mc("MC_ConsAll", dict(StartLo=lo, StartHi=hi), invariants=("Emit",), workers=1, vec_out=f"{table}.{i}", timeout=7200, tag=f"C11-all-{i}", xmx="3g"))
            except Exception as e:  # noqa
                errs.append(e)
        ths = [threading.Thread(target=one, args=(i, lo, hi)) for i, (lo, hi) in enumerate(bounds)]
        [t.start() for t in ths]; [t.join() for t in ths]
        if errs:
            raise errs[0]
        for inf in infos:
            res.add_mc(inf)
        tot = dict(pairs=0, calls=0, mismatches=0)
        for i in range(16):
            part = f"{table}.{i}"
            mis = part + ".mismatch"
            r = subprocess.run([binary, "cons", part, mis], capture_output=True, text=True, timeout=3600)
            if r.returncode != 0:
                raise ToolError("native constructor sweep failed: " + r.stderr[-500:])
            st = json.loads(r.stdout.strip().splitlines()[-1])
            for k in tot:
                tot[k] += st[k]
            for l in open(mis):
                e = json.loads(l)
                res.violation("vector-mismatch", C.strip(e), dict(expected=e.get("x")))
            os.remove(part); os.remove(mis)
        res.vectors += tot["calls"]
        res.notes["all_pairs_sweep"] = tot
        res.notes["exhaustive"] = tot["pairs"] == 1151 * 1151
    return res.finish()


def check_C18(tier, seed):
    res = Result("C18", tier, seed, "model_checking")
    binary = need_binary(res)
    rng = random.Random(seed * 7919 + 18)
    raw = os.path.join(C.OUT, "C18-vectors-raw.ndjson")
    res.add_mc(run_mc("MC_Format", dict(EmitVec="TRUE"), workers=C.NCPU, vec_out=raw, timeout=3000))
    run_pipeline(res, binary, "vec", vec_path=raw, validate=False)
    os.remove(raw)
    q = tier == "quick"
    run_pipeline(res, binary, "render", gen_lines=gens.gen_render(rng, 20000 if q else 300000), nshards=8 if q else 16)
    res.notes["rule"] = "vectors: corner grid of years (incl. i32 ends, 1..5 digit, negative) x dates x times (incl. second 60) x ns x offsets (0, +-1, around 60/3600/36000/86400/360000, i32 ends) with Read(Render(x)) = x model-checked; events: seeded date-times from timestamps and from fields with offsets over the whole i32 range; the rendered bytes must equal Render and the independent reader must recover fields/ns/offset"
    return res.finish()


def check_C09(tier, seed):
    res = Result("C09", tier, seed, "model_checking")
    binary = need_binary(res)
    rng = random.Random(seed * 7919 + 9)
    q = tier == "quick"
    raw = os.path.join(C.OUT, "C09-vectors-raw.ndjson")
    res.add_mc(run_mc("MC_TzString", dict(EmitVec="TRUE", MaxTok=3 if q else 4, PartA="TRUE", PartB="TRUE"), workers=C.NCPU, vec_out=raw, timeout=6000, xmx="8g"))
    run_pipeline(res, binary, "vec", vec_path=raw, validate=False)
    os.remove(raw)
    run_pipeline(res, binary, "strings", gen_lines=itertools.chain(gens.gen_ext_edge(), gens.gen_day_notation_confusions(), gens.gen_tzstrings(rng, 6000 if q else 100000)), nshards=12 if q else 16)
    def near_rules():
        # a sentence also has to be a rule the library can hold: start and end days that coincide or nearly do in some years, times
        # and offsets a few minutes either side of zero, written out (the decision must be the constructor's, C11)
        for _ in range(150 if q else 3000):
            r = gens.small_time_rule(rng)
            r["ed"] = gens.near_ruleday(rng, r["sd"]) if rng.random() < 0.7 else r["ed"]
            if rng.random() < 0.4:
                r["st"], r["et"] = rng.choice([(7200, 5400), (7200, 9000), (3600, 7200), (0, 86400), (86400, 0), (7200, 7200)])
            yield r
    run_pipeline(res, binary, "rules-as-strings", gen_lines=gens.gen_rule_strings(rng, near_rules()), nshards=8 if q else 16, min_events=50)
    res.notes["rule"] = "vectors: sentences assembled from components carrying their denotation (all spellings of names, offsets, days, times; one or two slots varied at a time; truncations) and every string of <= MaxTok tokens of a 20-token alphabet, each through the settings path (extensions off), a v2 footer (off) and a v3 footer (on); events: seeded sentences, full component products and single/double byte edits incl. NUL, non-UTF-8 and interior whitespace"
    return res.finish()


def check_C08(tier, seed):
    res = Result("C08", tier, seed, "model_checking")
    binary = need_binary(res)
    rng = random.Random(seed * 7919 + 8)
    q = tier == "quick"
    raw = os.path.join(C.OUT, "C08-vectors-raw.ndjson")
    res.add_mc(run_mc("MC_TzFile", dict(EmitVec="TRUE", CMod=29 if q else 3, CRem=seed % (29 if q else 3)), workers=C.NCPU, vec_out=raw, timeout=6000, xmx="12g"))
    run_pipeline(res, binary, "vec", vec_path=raw, validate=False)
    os.remove(raw)
    files = gens.select_files(rng, 60) if q else gens.corpus_files()
    res.notes["corpus_files_decoded"] = len(files)
    run_pipeline(res, binary, "corpus", gen_lines=gens.gen_corpus_decode(rng, files), nshards=12 if q else 16, min_events=5)
    run_pipeline(res, binary, "corpus-mutations", gen_lines=gens.gen_corpus_mutations(rng, files, 6 if q else 20), nshards=12 if q else 16, min_events=30)
    run_pipeline(res, binary, "synthesised", gen_lines=gens.gen_synth_files(rng, 150 if q else 3000), nshards=12 if q else 16, min_events=10)
    def by_name():
        # the same decoding reached by name (TimeZoneSettings): a malformed file must be reported, not replaced by reading its name
        # as a description - also when the name is itself one (GMT0, UTC0, EST5EDT)
        for rel in rng.sample(files, min(len(files), 12 if q else 150)):
            _, data = gens.corpus_event(rel)
            for content in (data, gens.mutate_file(rng, data), gens.mutate_file(rng, data), data[:rng.randint(0, len(data) - 1)]):
                name = rng.choice(["GMT0", "UTC0", "GMT0", "GMT+0", "Some/Zone", "<-03>3", "EST5EDT,M3.2.0,M11.1.0"])
                yield {"op": "resolve", "a": {"s": C.B(rng.choice(["", ":"]) + name), "dirs": [C.B("/zi")], "vfs": [[C.B("/zi/" + name), list(content)]], "via": "posix"}, "g": 1}
    run_pipeline(res, binary, "by-name", gen_lines=by_name(), nshards=8, min_events=10)
    res.notes["rule"] = "vectors: small zones written by the TLA+ encoder in v1/v2/v3 (32-bit block of v2+ holds a different zone; shared-suffix and empty designations; all indicator vectors; plain and extended footers) with Decode(Encode(z)) = z model-checked, plus every truncation and single-byte corruption of a share of them with the spec decoder's verdict; events: real tzdata 2025b files (posix and right/ trees) decoded by the TLA+ decoder inside TLC and compared with the crate's zone, and single-field corruptions of real files; synthesised well-formed files of the shapes the corpus lacks (designation tables beyond 256 bytes with names crossing byte 255, suffix designations, up to 200 types, 32-bit blocks of v2+ files that are not valid zones of their own, all indicator combinations, leap tables) and their mutations"
    return res.finish()


def check_C20(tier, seed):
    res = Result("C20", tier, seed, "model_checking")
    binary = need_binary(res)
    rng = random.Random(seed * 7919 + 20)
    q = tier == "quick"
    raw = os.path.join(C.OUT, "C20-vectors-raw.ndjson")
    res.add_mc(run_mc("MC_Resolve", dict(EmitVec="TRUE", MaxDirs=2 if q else 3), workers=C.NCPU, vec_out=raw, timeout=6000, xmx="8g"))
    run_pipeline(res, binary, "vec", vec_path=raw, validate=True, nshards=16, min_events=100)
    os.remove(raw)
    run_pipeline(res, binary, "random", gen_lines=gens.gen_resolve(rng, 3000 if q else 60000), nshards=12 if q else 16, min_events=100)
    res.notes["rule"] = "vectors: 16 TZ values (empty, localtime, ':' forms, absolute, relative, padded, descriptions, names that are also descriptions) x directory lists (<= MaxDirs of 3 names incl. a relative one and repeats) x every {absent, valid, malformed, unreadable} assignment to the planned paths, with and without valid decoy files at every path a wrong reading would open; events: seeded longer directory lists, names with '/', doubled ':', surrounding whitespace; the recorded sequence of requested paths and the outcome are validated by TLC"
    return res.finish()


def check_C10(tier, seed):
    import refs
    res = Result("C10", tier, seed, "other")
    binary = need_binary(res)
    rng = random.Random(seed * 7919 + 10)
    q = tier == "quick"
    files = gens.select_files(rng, 48) if q else gens.corpus_files()
    res.notes["corpus_files"] = len(files)
    def events():
        for rel in files:
            yield from refs.gen_file_session(rng, rel, max_tr=30 if q else 400, nrandom=10 if q else 40)
    run_pipeline(res, binary, "files", gen_lines=events(), nshards=16, min_events=300)
    def nevents():
        for rel in ["EST5EDT", "CST6CDT", "MST7MDT", "PST8PDT", "EST", "MST", "HST", "CET", "EET", "MET", "WET", "Etc/GMT0", "Etc/GMT+5", "Etc/UTC", "Europe/Dublin"]:
            if os.path.exists(os.path.join(gens.CORPUS, rel)):
                yield from refs.gen_file_session(rng, rel, max_tr=12 if q else 400, nrandom=12 if q else 40, mk=not q, by_name=True)
    run_pipeline(res, binary, "names", gen_lines=nevents(), nshards=8, min_events=200)
    def sevents():
        for s in refs.POSIX_STRINGS:
            yield from refs.gen_string_session(rng, s)
        for _ in range(20 if q else 400):
            yield from refs.gen_string_session(rng, refs.rand_posix_string(rng))
    run_pipeline(res, binary, "strings", gen_lines=sevents(), nshards=8, min_events=300)
    res.notes["explanation"] = ("Differential conformance of three implementations to one specification: for each tzdata 2025b file the trace holds the crate's lookups "
                                "and searches and the observations of glibc (time.tzset/localtime with TZ=:/path; right/ files at the leap count) and CPython zoneinfo "
                                "(ZoneInfo.from_file) at every selected transition -1/0/+1, seeded instants 1900-2500 and footer-governed years; TLC validates every "
                                "observation of every implementation against TypeAt / ValidInstants of the zone decoded from the file. mktime: the instants each "
                                "reference implies (preimage of its own forward function) must equal the spec's set, which the crate's search is validated against.")
    res.notes["rule"] = "quick: 48 files (24 fixed interesting + seeded), <= 30 transitions each; thorough: all 894 files, <= 400 transitions each; 13 fixed + seeded POSIX TZ strings vs glibc's TZ parser"
    return res.finish()


def gen_thread_sessions(rng, nz):
    for i in range(nz):
        k = i % 3
        if k == 0:
            z = gens.gen_table_zone(rng, nmax=12)
            yield from gens.gen_zone_session(rng, z, nprobe=25, do_find=True, do_findn=True)
        elif k == 1:
            yield from gens.gen_rule_zone_session(rng, gens.corpus_rule(i), with_table=(i % 2 == 0), do_find=True, do_findn=True, nprobe=25)
        else:
            rel = rng.choice([f for f in gens.INTERESTING_FILES if os.path.exists(os.path.join(gens.CORPUS, f))])
            ev, data = gens.corpus_event(rel)
            yield ev
            times, _ = gens.parse_tzif_times(data)
            for t in rng.sample(times, min(len(times), 12)):
                yield {"op": "lookup", "a": {"u": C.W(t + rng.choice([-1, 0, 1])), "via": rng.choice(["owned", "ref"])}}
                yield {"op": "find", "a": gens.fields_of_local(t + rng.choice([-3600, 0, 3600]), 0)}
        for s in rng.sample(["EST5EDT,M3.2.0,M11.1.0", "CET-1CEST,M3.5.0,M10.5.0/3", "UTC0", "<-03>3", "AAA-1", "BBB-2", "Europe/Paris", "nonexistent/zone", ":UTC", "localtime"], 4):
            yield {"op": "posixtz", "a": {"s": C.B(s)}}
        yield {"op": "local", "a": {}}
        # failing file-system calls (they leave errno set on the calling thread) next to resolutions through an in-memory reader
        yield {"op": "posixtz", "a": {"s": C.B(rng.choice(["/etc/passwd/x", "/etc", ":/proc/self/mem/x"]))}}
        yield {"op": "resolve", "a": {"s": C.B(rng.choice([":missing", ":a/b", "missing"])), "dirs": [C.B(d) for d in rng.sample(["/zi", "/zj"], rng.randint(0, 2))], "vfs": [], "via": "posix"}}
        yield {"op": "project", "a": {"t": C.W(rng.randint(-2**40, 2**40)), "ns": 5, "type": gens.rand_type(rng), "via": "dt"}}


def check_C15(tier, seed):
    import scan, subprocess
    res = Result("C15", tier, seed, "other")
    # (0) auto traits of every public type (compile-time), by a stand-alone target that needs nothing of the executor: a change of
    # the public signatures that drops Send/Sync (e.g. of the boxed error inside tz::Error) may keep the executor from compiling,
    # and is still reported for what it is
    b0, err0 = build_harness("chk")
    d = C.harness_dir()
    r = subprocess.run(["cargo", "check", "--offline", "--profile", "chk", "--features", "assert-traits", "--bin", "traitcheck", "--target-dir", "target-traits"], cwd=d, capture_output=True, text=True)
    if r.returncode != 0:
        if "E0277" not in r.stderr and b0 is None:
            raise ToolError("harness build failed:\n" + err0)
        res.violation("C15-auto-trait-missing", {"op": "assert-traits", "a": {}, "r": {"compile_error": r.stderr[-1500:]}})
    res.notes["auto_trait_assertions"] = "19 public types: Send + Sync + 'static (+ RefUnwindSafe, Copy for value types)"
    if b0 is None:
        if res.violations:
            res.notes["executor"] = "the executor does not build against this tree (public signatures changed); only the compile-time assertions were evaluated"
            return res.finish()
        raise ToolError("harness build failed:\n" + err0)
    binary = b0
    rng = random.Random(seed * 7919 + 15)
    q = tier == "quick"
    # (1) the model: all interleavings of the faithful library give sequential results; with a shared cell TLC must find the torn read
    res.add_mc(run_mc("Threads", dict(NThreads=3, Calls=2 if q else 3, SharedCache="FALSE"), workers=8, timeout=3000))
    try:
        run_mc("Threads", dict(NThreads=2, Calls=2, SharedCache="TRUE"), workers=4, timeout=600, tag="Threads-mutant")
        raise ToolError("the shared-cache variant of Threads.tla no longer violates Sequential: the model lost its ability to express the hazard")
    except ToolError as e:
        if "Invariant Inv is violated" not in str(e):
            raise
        res.notes["shared_cell_mutant"] = "TLC finds the torn-read counterexample (Invariant Inv violated), as required"
    # (2) static footprint of the current working tree, judged by the trace specification
    facts, nfiles = scan.scan_repo(C.REPO)
    res.notes["files_scanned"] = nfiles
    res.notes["footprint_facts"] = [dict(kind=f["kind"], file=f["file"], line=f["line"]) for f in facts]
    run_pipeline(res, binary, "footprint", gen_lines=({"op": "footprint", "a": f} for f in facts), nshards=1)
    # (4) N threads on shared zones: every thread must get the sequential result for every call; the sequential trace is validated
    inp = os.path.join(C.OUT, "C15-threads.in")
    with open(inp, "w") as f:
        for e in gen_thread_sessions(rng, 12 if q else 120):
            f.write(json.dumps(e, separators=(",", ":")) + "\n")
    for nt in ((2, 16) if q else (2, 4, 16, 64)):
        outp = os.path.join(C.OUT, f"C15-threads-{nt}.ndjson")
        r = subprocess.run([binary, "threads", inp, outp, str(nt)], capture_output=True, text=True, timeout=3000)
        if r.returncode != 0:
            res.violation("C15-threaded-run-died", {"op": "threads", "a": {"n": nt}, "r": {"stderr": r.stderr[-800:]}})
            continue
        stats = json.loads(r.stdout.strip().splitlines()[-1])
        res.drivers[f"threads-{nt}"] = stats["events"]
        tr = C.run_trace(outp, nshards=8, min_events=200)
        res.events += tr["events"]; res.trace_states += tr["states"]; res.algo_diff += tr["algo_diff"]
        for (idx, tag, line, zline, ztags, etags) in tr["bad"]:
            res.violation(tag, C.strip(json.loads(line)), dict(index=idx, zone_tags=ztags, event_tags=etags, threads=nt, context=C.strip(json.loads(zline)) if zline else None))
        if not res.samples:
            res.samples.append(C.strip(json.loads(open(outp).readline())))
        os.remove(outp)
    # (5) no dependence on the process environment, on the working directory or on what the thread did before: the same calls
    # with TZ and other variables set, from another directory (holding readable files named like the TZ values), and interleaved
    # with failing file-system calls (which leave errno set) must return the same results, error texts included
    envin = os.path.join(C.OUT, "C15-env.in")
    base_events = []
    for s in ["EST5EDT,M3.2.0,M11.1.0", "UTC0", "Europe/Paris", ":UTC", "localtime", "nonexistent", "HST10", ":nonexistent", "Paris", "<-03>3"]:
        base_events.append({"op": "posixtz", "a": {"s": C.B(s)}})
    base_events.append({"op": "local", "a": {}})
    # resolutions through an in-memory reader (it fails without any system call), incl. forced lookups of missing names
    for e in gens.gen_resolve(rng, 40 if q else 400):
        base_events.append({"op": e["op"], "a": e["a"]})
    for nm in (":missing", ":a/b", "missing", ":"):
        base_events.append({"op": "resolve", "a": {"s": C.B(nm), "dirs": [C.B("/zi")], "vfs": [], "via": "posix"}})
        base_events.append({"op": "resolve", "a": {"s": C.B(nm), "dirs": [], "vfs": [], "via": "posix"}})
    with open(envin, "w") as f:
        for e in base_events:
            f.write(json.dumps(e, separators=(",", ":")) + "\n")
    junk = [{"op": "posixtz", "a": {"s": C.B(s)}, "junk": 1} for s in ("/etc/passwd/x", "/etc", ":/proc/self/mem/x")]
    histin = os.path.join(C.OUT, "C15-hist.in")
    with open(histin, "w") as f:
        for i, e in enumerate(base_events):
            for j in rng.sample(junk, rng.randint(1, 2)):
                f.write(json.dumps(j, separators=(",", ":")) + "\n")
            f.write(json.dumps(e, separators=(",", ":")) + "\n")
    cwd_dir = os.path.join(C.OUT, "C15-cwd")
    shutil.rmtree(cwd_dir, ignore_errors=True)
    os.makedirs(cwd_dir)
    paris = open(os.path.join(C.VERIF, "corpus", "tzdata", "Europe", "Paris"), "rb").read()
    for nm in ("UTC0", "nonexistent", "HST10", "EST5EDT,M3.2.0,M11.1.0", "Paris", "UTC", "<-03>3", "missing"):
        open(os.path.join(cwd_dir, nm), "wb").write(paris)
    clean_env = {k: v for k, v in os.environ.items() if k not in ("TZ", "TZDIR")}

    def run_variant(infile, env, cwd, keep=lambda e: True):
        o = infile + ".out"
        subprocess.run([binary, "run", infile, o], capture_output=True, text=True, env=env, cwd=cwd, timeout=600)
        rs = [json.dumps(e.get("r"), sort_keys=True) for e in map(json.loads, open(o)) if keep(e)]
        os.remove(o)
        return rs
    base_out = run_variant(envin, clean_env, C.VERIF)
    variants = {
        "environment": run_variant(envin, dict(clean_env, TZ="ODD-13:37", TZDIR="/nonexistent", LC_ALL="tr_TR.UTF-8", HOME="/nonexistent"), C.VERIF),
        "working-directory": run_variant(envin, clean_env, cwd_dir),
        "history": run_variant(histin, clean_env, C.VERIF, keep=lambda e: "junk" not in e),
    }
    for what, got in variants.items():
        if got != base_out:
            k = next((i for i in range(min(len(got), len(base_out))) if got[i] != base_out[i]), min(len(got), len(base_out)))
            res.violation("C15-result-depends-on-" + what, {"op": base_events[k]["op"] if k < len(base_events) else "?", "a": base_events[k]["a"] if k < len(base_events) else {},
                                                            "r": {"plain": base_out[k][:600] if k < len(base_out) else None, "varied": got[k][:600] if k < len(got) else None}})
    shutil.rmtree(cwd_dir, ignore_errors=True)
    os.remove(histin)
    res.drivers["independence-reruns"] = 4 * len(base_events)
    res.events += 4 * len(base_events)
    os.remove(inp); os.remove(envin)
    res.notes["explanation"] = ("Threads.tla: every interleaving of 3 threads x 2-3 calls of the faithful library gives sequential results and touches no shared cell "
                                "(the shared-cache variant is required to fail). The premise 'no cell' is bound to the code by a token-level scan of src/ and Cargo.toml whose "
                                "facts TLC judges against the allowed set, by compile-time auto-trait assertions, by running the deterministic workload on 2..64 threads "
                                "sharing the same zones (each thread's result must equal the sequential, TLC-validated one) and by repeating the environment-facing calls and in-memory resolutions "
                                "with TZ/TZDIR/LC_ALL/HOME changed, from a working directory holding readable files named like the TZ values, and interleaved with failing "
                                "file-system calls that leave errno set (results and error texts must be identical).")
    res.notes["rule"] = "interleavings exhaustive in the model, sampled in the real code; the scan is syntactic"
    return res.finish()


def check_C19(tier, seed):
    import subprocess, itertools
    res = Result("C19", tier, seed, "exploration")
    rng = random.Random(seed * 7919 + 19)
    q = tier == "quick"
    bins = {}
    for feat in ("cfg-core", "cfg-alloc", "cfg-std"):
        b, err = build_harness("chk", features=feat)
        if b is None:
            # a configuration that does not build is the violation
            res.violation("C19-configuration-does-not-build", {"op": "build", "a": {"features": feat}, "r": {"compile_error": err[-1500:]}})
        bins[feat] = b
    # also the crate alone, the way a user builds it
    for flags in (["--no-default-features"], ["--no-default-features", "--features", "alloc"], []):
        r = subprocess.run(["cargo", "build", "--offline", "--target-dir", os.path.join(C.BASE_OUT, "c19-target")] + flags, cwd=C.REPO, capture_output=True, text=True)
        if r.returncode != 0:
            res.violation("C19-configuration-does-not-build", {"op": "build", "a": {"features": " ".join(flags)}, "r": {"compile_error": r.stderr[-1500:]}})
    if any(b is None for b in bins.values()):
        return res.finish()
    # zones of real files, turned into constructor arguments by the std build (the other configurations cannot read files)
    files = gens.select_files(rng, 14 if q else 120)
    tin = os.path.join(C.OUT, "C19-files.in"); tout = os.path.join(C.OUT, "C19-files.out")
    with open(tin, "w") as f:
        for e in gens.gen_corpus_decode(rng, files):
            f.write(json.dumps(e, separators=(",", ":")) + "\n")
    C.run_harness(bins["cfg-std"], tin, tout)
    corpus_zones = []
    for l, rel in zip(open(tout), files):
        e = json.loads(l)
        if "ok" in e["r"]:
            z = e["r"]["ok"]; z["via"] = "owned"
            data = open(os.path.join(gens.CORPUS, rel), "rb").read()
            corpus_zones.append((z, gens.parse_tzif_times(data)[0]))
    os.remove(tin); os.remove(tout)

    def workload():
        n = 3000 if q else 40000
        yield from gens.gen_gmtime(rng, n)
        yield from gens.gen_timegm(rng, n)
        yield from gens.gen_utccmp(rng, n // 3)
        yield from gens.gen_nanos(rng, n)
        yield from gens.gen_render(rng, n)
        yield from gens.gen_c11(rng, n // 3)
        for e in gens.gen_c14(rng, n):
            yield e
        for e in gens.gen_find_zones(rng, 60 if q else 1000, findn=True):
            yield e
        for e in gens.gen_c12(rng, 25 if q else 500):
            yield e
        for e in gens.gen_c13(rng, n // 6):
            yield e
        for (z, times) in corpus_zones:
            yield {"op": "zone", "a": z, "g": 1}
            for t in rng.sample(times, min(len(times), 25)):
                yield {"op": "lookup", "a": {"u": C.W(t + rng.choice([-1, 0, 1])), "via": "ref"}}
                f = gens.fields_of_local(t + rng.choice([-7200, -3600, 0, 1800, 3600, 7200]), 0)
                f["n"] = rng.randint(0, 4)
                yield {"op": "findn", "a": f}
                yield {"op": "fromnanos", "a": {"N": C.W(t * 10**9), "via": "zone", "type": {"off": 0, "dst": 0, "des": []}}}
    inp = os.path.join(C.OUT, "C19-workload.in")
    nev = 0
    with open(inp, "w") as f:
        for e in workload():
            if e["op"] in ("fixedzone", "now", "tzif", "tzstring", "resolve", "posixtz", "local"):
                continue                      # not part of the allocation-free API
            if e["op"] in ("find",):
                e = {"op": "findn", "a": dict(e["a"], n=8)}
            if e["op"] == "lookup":
                e["a"]["via"] = "ref"
            f.write(json.dumps(e, separators=(",", ":")) + "\n"); nev += 1
    outs = {}
    for feat, b in bins.items():
        o = os.path.join(C.OUT, f"C19-{feat}.ndjson")
        C.run_harness(b, inp, o)
        outs[feat] = o
    ref = open(outs["cfg-std"]).read().splitlines()
    for feat in ("cfg-core", "cfg-alloc"):
        other = open(outs[feat]).read().splitlines()
        ndiff = 0
        for i, (x, y) in enumerate(zip(ref, other)):
            if x != y:
                ndiff += 1
                if ndiff <= 5:
                    ex = json.loads(x); ey = json.loads(y)
                    res.violation("C19-configurations-disagree", C.strip(ex), dict(index=i, configuration=feat, result_there=ey.get("r")))
        if len(ref) != len(other):
            res.violation("C19-configurations-disagree", {"op": "length", "a": {}, "r": {"std": len(ref), feat: len(other)}})
        res.drivers[f"identical-{feat}-vs-std"] = len(ref) - ndiff
    res.vectors = 0
    # every configuration's recording is validated against the same specification (the no-alloc one in full)
    for feat in (("cfg-core",) if q else ("cfg-core", "cfg-alloc", "cfg-std")):
        tr = C.run_trace(outs[feat], nshards=16)
        res.events += tr["events"]; res.trace_states += tr["states"]; res.algo_diff += tr["algo_diff"]
        for (idx, tag, line, zline, ztags, etags) in tr["bad"]:
            res.violation(tag, C.strip(json.loads(line)), dict(index=idx, zone_tags=ztags, event_tags=etags, configuration=feat, context=C.strip(json.loads(zline)) if zline else None))
    res.samples.append(C.strip(json.loads(ref[0])))
    for o in outs.values():
        os.remove(o)
    os.remove(inp)
    res.notes["evaluations"] = nev * 3
    res.notes["distinct_nontrivial"] = nev
    res.notes["rule"] = ("the same deterministic workload (constructors, gmtime/timegm, nanoseconds, rendering, rules, zones incl. real tzdata zones passed as constructor arguments, "
                         "lookups, buffer-based searches) is executed by three builds of the harness against tz-rs with features {}, {alloc}, {alloc,std}; the three recordings must be "
                         "byte-identical and the no-alloc recording is validated event by event by TLC; distinct_nontrivial = number of workload events (each is a distinct call)")
    return res.finish({"evaluations": nev * 3, "distinct_nontrivial": nev})


def run_careful(res, binary, name, events, profile_tag, validate, timeout=1200):
    """Run events with per-call allocation measurement, flushing after every event so that a hang or an abort of the process is
    attributed to the event that was executing."""
    import subprocess
    inp = os.path.join(C.OUT, f"C07-{name}.in")
    outp = os.path.join(C.OUT, f"C07-{name}-{profile_tag}.ndjson")
    lines = [json.dumps(e, separators=(",", ":")) for e in events]
    open(inp, "w").write("\n".join(lines) + "\n")
    status = "ok"
    try:
        r = subprocess.run([binary, "run", inp, outp, "--mem", "--flush"], capture_output=True, text=True, timeout=timeout)
        if r.returncode != 0:
            status = f"process exited with status {r.returncode}: {r.stderr[-300:]}"
    except subprocess.TimeoutExpired:
        status = f"no response within {timeout}s"
    done = open(outp).read().splitlines() if os.path.exists(outp) else []
    if status != "ok":
        culprit = json.loads(lines[len(done)]) if len(done) < len(lines) else {"op": "?", "a": {}}
        res.violation("C07-abort-or-hang", dict(op=culprit.get("op"), a=culprit.get("a"), r={"process": status}), dict(profile=profile_tag, index=len(done)))
    npanic = 0
    for i, l in enumerate(done):
        e = json.loads(l)
        if '"panic"' in l and not validate:
            rr = e["r"]
            if "panic" in rr or "panic" in rr.get("res", {}) or "panic" in rr.get("full", {}):
                npanic += 1
                if npanic <= 5:
                    res.violation("panic", C.strip(e), dict(profile=profile_tag, index=i))
        if e["op"] in ("tzif", "tzstring"):
            ln = len(e["a"].get("bytes") or e["a"].get("s") or [])
            if e.get("mem", 0) > 64 * (ln + 200) + 4096:      # + the constant wrapper file of the footer paths
                res.violation("C07-allocation-bound", C.strip(e) if ln < 300 else dict(op=e["op"], a={"len": ln}, r=e["r"]), dict(profile=profile_tag, peak_bytes=e["mem"], input_len=ln))
    res.drivers[f"{name}-{profile_tag}"] = len(done)
    if validate and done:
        tr = C.run_trace(outp, nshards=16, min_events=300)
        res.events += tr["events"]; res.trace_states += tr["states"]; res.algo_diff += tr["algo_diff"]
        for (idx, tag, line, zline, ztags, etags) in tr["bad"]:
            e = json.loads(line)
            res.violation(tag, C.strip(e) if len(line) < 4000 else dict(op=e["op"], a={"len": len(line)}, r=e["r"] if len(json.dumps(e["r"])) < 2000 else "large"),
                          dict(index=idx, zone_tags=ztags, event_tags=etags, profile=profile_tag, context=(C.strip(json.loads(zline)) if zline and len(zline) < 4000 else None)))
    else:
        res.events += len(done)
    if not res.samples and done:
        e = json.loads(done[0]); res.samples.append(C.strip(e) if len(done[0]) < 3000 else {"op": e["op"], "note": "large event"})
    return outp, inp


def check_C07(tier, seed):
    res = Result("C07", tier, seed, "exploration")
    rng = random.Random(seed * 7919 + 7)
    q = tier == "quick"
    bchk = need_binary(res, "chk")
    brel, err = build_harness("rel")
    if brel is None:
        raise ToolError("release-profile harness build failed:\n" + err)
    # structured hostile files generated from the TLA+ encoder: every truncation and single-byte corruption of small valid files
    raw = os.path.join(C.OUT, "C07-vectors-raw.ndjson")
    res.add_mc(run_mc("MC_TzFile", dict(EmitVec="TRUE", CMod=53 if q else 7, CRem=(seed + 1) % (53 if q else 7)), workers=C.NCPU, vec_out=raw, timeout=6000, xmx="12g"))
    vec_events = [json.loads(l) for l in open(raw)]
    os.remove(raw)
    if q:
        # quick: all truncations (they are few and each is a distinct cut point) and a seeded sample of the byte corruptions
        lens = {}
        keep = []
        for e in vec_events:
            lens.setdefault(len(e["a"]["bytes"]), []).append(e)
        vec_events = rng.sample(vec_events, min(len(vec_events), 7000))
    files = gens.select_files(rng, 40) if q else gens.corpus_files()
    batches = {
        "spec-files": vec_events,
        "files": list(gens.gen_hostile_files(rng, files, 12 if q else 40)),
        "strings": list(gens.gen_hostile_strings(rng, 4000 if q else 80000)) + list(gens.gen_hostile_tz_values(rng)),
        "numbers": list(gens.gen_hostile_numbers(rng, 500 if q else 10000)),
    }
    total = 0
    for name, evs in batches.items():
        total += len(evs)
        o1, inp = run_careful(res, bchk, name, evs, "chk", validate=True)
        o2, _ = run_careful(res, brel, name, evs, "rel", validate=False)
        # the two profiles must agree on every outcome (an overflow that only wraps silently in release shows up here)
        if os.path.exists(o1) and os.path.exists(o2):
            ndiff = 0
            for i, (x, y) in enumerate(zip(open(o1), open(o2))):
                ex, ey = json.loads(x), json.loads(y)
                if ex.get("r") != ey.get("r"):
                    ndiff += 1
                    if ndiff <= 3:
                        res.violation("C07-profiles-disagree", C.strip(ex) if len(x) < 4000 else dict(op=ex["op"], a={"len": len(x)}, r="large"), dict(index=i, release_result=ey.get("r") if len(y) < 4000 else "large"))
        for p in (o1, o2, inp):
            if os.path.exists(p):
                os.remove(p)
    res.notes["rule"] = ("hostile inputs: every truncation / single-byte corruption of TLA+-encoded files; structured and byte-level mutations of real tzdata files (header counts up to 2^32-1, "
                         "extreme 64-bit times, splices, truncations); random and grammar-shaped byte strings incl. non-UTF-8 through both footer paths; zones, rules, lookups, searches, "
                         "nanosecond counts, projections and renderings at i64/i32/i128 extremes. Each event runs under catch_unwind in a build with overflow checks and debug assertions and in a "
                         "release build, with the peak allocation of the crate call measured and the process watched for aborts and hangs; TLC validates that every outcome is one the specification admits. "
                         "distinct_nontrivial = number of generated events (all distinct inputs by construction of the generators, duplicates not removed)")
    return res.finish({"evaluations": total * 2, "distinct_nontrivial": total})


CHECKS = {"C07": check_C07, "C19": check_C19, "C15": check_C15, "C10": check_C10, "C20": check_C20, "C08": check_C08, "C09": check_C09, "C18": check_C18, "C04": check_C04, "C11": check_C11, "C01": check_C01, "C02": check_C02, "C16": check_C16, "C03": check_C03, "C12": check_C12, "C13": check_C13,
          "C05": lambda t, s: check_find("C05", t, s), "C06": lambda t, s: check_find("C06", t, s), "C17": lambda t, s: check_find("C17", t, s),
          "C14": check_C14}


def replay(path):
    """Re-run the event of a violation file against the current tree and through the trace specification."""
    v = json.load(open(path))
    ev = v["event"]
    if ev.get("op") in ("build", "assert-traits", "threads", "env", "length") or "a" not in ev:
        print("this violation is not a single API event; re-run the check itself:", f"bin/check {v['property']} --tier {v.get('tier', 'quick')}")
        return 2
    b, err = build_harness("chk")
    if b is None:
        print(err); return 2
    lines = []
    ctx = (v.get("extra") or {}).get("context")
    if ctx:
        lines.append({"op": ctx["op"], "a": ctx["a"], "g": 1})
    e = {"op": ev["op"], "a": ev["a"]}
    exp = (v.get("extra") or {}).get("expected")
    if exp:
        e["x"] = exp
    lines.append(e)
    os.makedirs(C.OUT, exist_ok=True)
    inp, outp = os.path.join(C.OUT, "replay.in"), os.path.join(C.OUT, "replay.ndjson")
    open(inp, "w").write("\n".join(json.dumps(l) for l in lines) + "\n")
    C.run_harness(b, inp, outp)
    got = [json.loads(l) for l in open(outp)]
    print("observed now :", json.dumps(got[-1]["r"])[:2000])
    print("observed then:", json.dumps(ev.get("r"))[:2000])
    still = False
    if exp is not None:
        print("specification admits:", json.dumps(exp)[:2000])
        still = got[-1].get("m") == 0
    tr = C.run_trace(outp, nshards=1)
    tags = sorted({t for (_, t, *_r) in tr["bad"]})
    print("trace specification tags now:", tags, " tag then:", v["tag"])
    still = still or bool(tags)
    print("REPRODUCED" if still else "NOT REPRODUCED (the current tree agrees with the specification on this event)")
    return 1 if still else 0


def selftest():
    """Shows that the binding binds: (i) one recorded field of one event per operation is corrupted and the trace specification must
    reject exactly that event; (ii) the reachability witnesses of MC_TzRs must be violated (the system model's properties are not
    vacuous). Not a registered check; results in out/selftest.json."""
    import copy
    b, err = build_harness("chk")
    if b is None:
        print(err); return 2
    rng = random.Random(4242)
    evs = []
    evs += list(gens.gen_gmtime(rng, 3)) + list(gens.gen_timegm(rng, 3)) + list(gens.gen_nanos(rng, 3)) + list(gens.gen_render(rng, 4)) + list(gens.gen_c11(rng, 6))
    evs += list(gens.gen_c14(rng, 30))
    evs += list(gens.gen_zone_session(rng, gens.gen_table_zone(rng, nmax=6, leaps=[]), nprobe=6, do_find=True, do_findn=True))
    evs += list(gens.gen_rule_zone_session(rng, gens.corpus_rule(0), do_find=True, nprobe=6))
    evs += list(gens.gen_tzstrings(rng, 4)) + list(gens.gen_resolve(rng, 3))
    evs += list(gens.gen_corpus_decode(rng, ["Europe/Paris"]))
    os.makedirs(C.OUT, exist_ok=True)
    inp, outp = os.path.join(C.OUT, "selftest.in"), os.path.join(C.OUT, "selftest.ndjson")
    open(inp, "w").write("\n".join(json.dumps(e) for e in evs) + "\n")
    C.run_harness(b, inp, outp)
    rec = [json.loads(l) for l in open(outp)]
    base = C.run_trace(outp, nshards=1)
    base_bad = {i for (i, *_r) in base["bad"]}

    def corrupt(v):
        """change one numeric leaf (depth-first); returns True when something was changed"""
        if isinstance(v, dict):
            for k in sorted(v):
                if isinstance(v[k], bool):
                    continue
                if isinstance(v[k], int) and k not in ("dst",):
                    v[k] += 1
                    return True
                if isinstance(v[k], (dict, list)) and corrupt(v[k]):
                    return True
        elif isinstance(v, list):
            for i, x in enumerate(v):
                if isinstance(x, int) and not isinstance(x, bool):
                    v[i] = (x + 1) % 1000 if i > 0 else x
                    if v[i] != x:
                        return True
                if isinstance(x, (dict, list)) and corrupt(x):
                    return True
        return False

    results = []
    seen_ops = set()
    for i, e in enumerate(rec):
        if e["op"] in seen_ops or i in base_bad or not ("ok" in e["r"] or "full" in e["r"]):
            continue
        mut = copy.deepcopy(rec)
        if not corrupt(mut[i]["r"]):
            continue
        seen_ops.add(e["op"])
        p = os.path.join(C.OUT, "selftest-mut.ndjson")
        open(p, "w").write("\n".join(json.dumps(x) for x in mut) + "\n")
        tr = C.run_trace(p, nshards=1)
        new_bad = {j for (j, *_r) in tr["bad"]} - base_bad
        results.append(dict(op=e["op"], index=i, rejected_at=sorted(new_bad), ok=(i in new_bad)))
        os.remove(p)
    witnesses = {}
    consts = {k: f"<- {k}C" for k in ("Zones", "Instants", "LocalTimes", "Files", "TzValues", "Dirs", "Vfs", "Rules", "TzStrings", "Nanos")}
    consts["MaxSteps"] = 3
    for w in ("W_Fold", "W_Gap", "W_BufStale", "W_Reads2", "W_Project", "W_Refused"):
        try:
            run_mc("MC_TzRs", consts, invariants=(w,), workers=8, timeout=600, tag="selftest-" + w)
            witnesses[w] = "NOT violated (the situation is unreachable: the model would be vacuous there)"
        except ToolError as ex:
            witnesses[w] = "violated, as required" if f"Invariant {w} is violated" in str(ex) else "error: " + str(ex)[:200]
    ok = all(r["ok"] for r in results) and all(v.startswith("violated") for v in witnesses.values())
    json.dump(dict(corrupted_fields=results, reachability_witnesses=witnesses, ok=ok), open(os.path.join(C.BASE_OUT, "selftest.json"), "w"), indent=1)
    for r in results:
        print(("ok   " if r["ok"] else "FAIL ") + f"corrupting one field of a recorded '{r['op']}' result -> rejected at {r['rejected_at']} (event {r['index']})")
    for w, v in witnesses.items():
        print(("ok   " if v.startswith("violated") else "FAIL ") + f"{w}: {v}")
    os.remove(inp); os.remove(outp)
    return 0 if ok else 1


def main(argv):
    if not argv:
        print(__doc__)
        return 2
    if argv[0] == "selftest":
        try:
            return selftest()
        except ToolError as e:
            print("TOOL-ERROR:", e)
            return 2
    if argv[0] == "replay":
        try:
            return replay(argv[1])
        except ToolError as e:
            print("TOOL-ERROR:", e)
            return 2
    if argv[0] == "setup":
        b, err = build_harness("chk")
        if b is None:
            print(err)
            return 2
        return 0
    ap = argparse.ArgumentParser()
    ap.add_argument("pid")
    ap.add_argument("--tier", default=os.environ.get("VERIF_TIER", "quick"))
    args = ap.parse_args(argv)
    if args.pid not in CHECKS:
        print(f"unknown property {args.pid}")
        return 2
    os.makedirs(C.OUT, exist_ok=True)
    try:
        return CHECKS[args.pid](args.tier, seed_of())
    except ToolError as e:
        print("TOOL-ERROR:", e)
        return 2
    except Exception as e:      # a bug of the machinery is never a verdict about the code
        import traceback
        traceback.print_exc()
        print("TOOL-ERROR: internal error of the checking machinery:", repr(e))
        return 2
