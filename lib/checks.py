"""The registered checks, one function per property."""
import argparse, json, os, random, sys, time
import common as C
from common import Result, ToolError, run_mc, run_pipeline, build_harness, log
import gens


def seed_of():
    try:
        return int(os.environ.get("VERIF_SEED", "0"))
    except ValueError:
        return 0


def need_binary(res, profile="chk"):
    b, err = build_harness(profile)
    if b is None:
        # the crate under test (or the harness against it) does not build: nothing can be observed
        raise ToolError("harness build failed:\n" + err)
    return b


def tla_set(xs):
    return "{" + ", ".join(str(x) for x in xs) + "}"


# ---------------------------------------------------------------------------------------------

def cal_years(tier, seed):
    if tier == "thorough":
        return list(range(400))
    rng = random.Random(seed)
    fixed = [0, 1, 3, 4, 99, 100, 101, 199, 200, 299, 300, 368, 369, 370, 371, 372, 399]
    return sorted(set(fixed + rng.sample(range(400), 23)))


def mc_calendar(res, tier, seed, vec_path):
    years = cal_years(tier, seed)
    if tier == "thorough":
        consts = dict(Years=tla_set(years), EmitVec="TRUE", Cycles="<- CyclesThorough", Secs=tla_set([0, 1, 3599, 43200, 86399]), Mod=1, Rem=0)
    else:
        consts = dict(Years=tla_set(years), EmitVec="TRUE", Cycles="<- CyclesQuick", Secs=tla_set([0, 86399]), Mod=3, Rem=seed % 3)
    info = run_mc("MC_Calendar", consts, workers=C.NCPU, vec_out=vec_path, timeout=3000)
    info["years_walked"] = len(years)
    res.add_mc(info)


def check_C01(tier, seed):
    res = Result("C01", tier, seed, "model_checking")
    binary = need_binary(res)
    rng = random.Random(seed * 7919 + 1)
    vec = os.path.join(C.OUT, "C01-vectors.ndjson")
    mc_calendar(res, tier, seed, vec)
    # spec -> impl: only the gmtime vectors belong to C01 (timegm ones are replayed by C02)
    sel = os.path.join(C.OUT, "C01-vec-gmtime.ndjson")
    with open(sel, "w") as f:
        for l in open(vec):
            if '"op":"gmtime"' in l:
                f.write(l)
    run_pipeline(res, binary, "vec", vec_path=sel, validate=False)
    n = 20000 if tier == "quick" else 300000
    run_pipeline(res, binary, "random", gen_lines=gens.gen_gmtime(rng, n), nshards=8 if tier == "quick" else 16)
    res.notes["rule"] = "vectors: every day of the walked years x cycle indices x seconds of day emitted by MC_Calendar; events: seeded instants (uniform, range ends, year/century/cycle boundaries, negative remainders, i64 extremes) through UtcDateTime::from_timespec and DateTime::from_timespec(utc)"
    os.remove(vec); os.remove(sel)
    return res.finish()


def check_C02(tier, seed):
    res = Result("C02", tier, seed, "model_checking")
    binary = need_binary(res)
    rng = random.Random(seed * 7919 + 2)
    vec = os.path.join(C.OUT, "C02-vectors.ndjson")
    mc_calendar(res, tier, seed, vec)
    sel = os.path.join(C.OUT, "C02-vec-timegm.ndjson")
    with open(sel, "w") as f:
        for l in open(vec):
            if '"op":"timegm"' in l:
                f.write(l)
    run_pipeline(res, binary, "vec", vec_path=sel, validate=False)
    n = 15000 if tier == "quick" else 200000
    run_pipeline(res, binary, "fields", gen_lines=gens.gen_timegm(rng, n), nshards=8 if tier == "quick" else 16)
    run_pipeline(res, binary, "order", gen_lines=gens.gen_utccmp(rng, n // 3), nshards=4)
    res.notes["rule"] = "vectors: every date of the walked years (plus second 60 and the day after each month end) x cycle indices; events: seeded field tuples (70% valid, all u8 corner values, i32 extremes) through UtcDateTime::new and DateTime::new(utc); pairs for the derived order"
    os.remove(vec); os.remove(sel)
    return res.finish()


def check_C16(tier, seed):
    res = Result("C16", tier, seed, "model_checking")
    binary = need_binary(res)
    rng = random.Random(seed * 7919 + 16)
    vec = os.path.join(C.OUT, "C16-vectors.ndjson")
    res.add_mc(run_mc("MC_Nanos", dict(R=300 if tier == "quick" else 2500, EmitVec="TRUE"), workers=C.NCPU, vec_out=vec))
    run_pipeline(res, binary, "vec", vec_path=vec, validate=False)
    n = 20000 if tier == "quick" else 300000
    run_pipeline(res, binary, "random", gen_lines=gens.gen_nanos(rng, n), nshards=8 if tier == "quick" else 16)
    res.notes["rule"] = "vectors: every count within R of 17 anchors (multiples of 1e9, i64/i128 ends, date-time range ends); events: seeded i128 counts (log-uniform, anchors, zero crossings) through the three from_total_nanoseconds constructors"
    os.remove(vec)
    return res.finish()


CHECKS = {"C01": check_C01, "C02": check_C02, "C16": check_C16}


def main(argv):
    if not argv:
        print(__doc__)
        return 2
    if argv[0] == "setup":
        b, err = build_harness("chk")
        if b is None:
            print(err)
            return 2
        return 0
    ap = argparse.ArgumentParser()
    ap.add_argument("pid")
    ap.add_argument("--tier", default=os.environ.get("VERIF_TIER", "quick"))
    args = ap.parse_args(argv)
    if args.pid not in CHECKS:
        print(f"unknown property {args.pid}")
        return 2
    os.makedirs(C.OUT, exist_ok=True)
    try:
        return CHECKS[args.pid](args.tier, seed_of())
    except ToolError as e:
        print("TOOL-ERROR:", e)
        return 2
