"""The registered checks, one function per property."""
import argparse, json, os, random, sys, time
import common as C
from common import Result, ToolError, run_mc, run_pipeline, build_harness, log
import gens


def seed_of():
    try:
        return int(os.environ.get("VERIF_SEED", "0"))
    except ValueError:
        return 0


def need_binary(res, profile="chk"):
    b, err = build_harness(profile)
    if b is None:
        # the crate under test (or the harness against it) does not build: nothing can be observed
        raise ToolError("harness build failed:\n" + err)
    return b


def tla_set(xs):
    return "{" + ", ".join(str(x) for x in xs) + "}"


# ---------------------------------------------------------------------------------------------

def cal_years(tier, seed):
    if tier == "thorough":
        return list(range(400))
    rng = random.Random(seed)
    fixed = [0, 1, 3, 4, 99, 100, 101, 199, 200, 299, 300, 368, 369, 370, 371, 372, 399]
    return sorted(set(fixed + rng.sample(range(400), 23)))


def mc_calendar(res, tier, seed, vec_path):
    years = cal_years(tier, seed)
    if tier == "thorough":
        consts = dict(Years=tla_set(years), EmitVec="TRUE", Cycles="<- CyclesThorough", Secs=tla_set([0, 1, 3599, 43200, 86399]), Mod=1, Rem=0)
    else:
        consts = dict(Years=tla_set(years), EmitVec="TRUE", Cycles="<- CyclesQuick", Secs=tla_set([0, 86399]), Mod=3, Rem=seed % 3)
    info = run_mc("MC_Calendar", consts, workers=C.NCPU, vec_out=vec_path, timeout=3000)
    info["years_walked"] = len(years)
    res.add_mc(info)


def check_C01(tier, seed):
    res = Result("C01", tier, seed, "model_checking")
    binary = need_binary(res)
    rng = random.Random(seed * 7919 + 1)
    vec = os.path.join(C.OUT, "C01-vectors.ndjson")
    mc_calendar(res, tier, seed, vec)
    # spec -> impl: only the gmtime vectors belong to C01 (timegm ones are replayed by C02)
    sel = os.path.join(C.OUT, "C01-vec-gmtime.ndjson")
    with open(sel, "w") as f:
        for l in open(vec):
            if '"op":"gmtime"' in l:
                f.write(l)
    run_pipeline(res, binary, "vec", vec_path=sel, validate=False)
    n = 20000 if tier == "quick" else 300000
    run_pipeline(res, binary, "random", gen_lines=gens.gen_gmtime(rng, n), nshards=8 if tier == "quick" else 16)
    res.notes["rule"] = "vectors: every day of the walked years x cycle indices x seconds of day emitted by MC_Calendar; events: seeded instants (uniform, range ends, year/century/cycle boundaries, negative remainders, i64 extremes) through UtcDateTime::from_timespec and DateTime::from_timespec(utc)"
    os.remove(vec); os.remove(sel)
    return res.finish()


def check_C02(tier, seed):
    res = Result("C02", tier, seed, "model_checking")
    binary = need_binary(res)
    rng = random.Random(seed * 7919 + 2)
    vec = os.path.join(C.OUT, "C02-vectors.ndjson")
    mc_calendar(res, tier, seed, vec)
    sel = os.path.join(C.OUT, "C02-vec-timegm.ndjson")
    with open(sel, "w") as f:
        for l in open(vec):
            if '"op":"timegm"' in l:
                f.write(l)
    run_pipeline(res, binary, "vec", vec_path=sel, validate=False)
    n = 15000 if tier == "quick" else 200000
    run_pipeline(res, binary, "fields", gen_lines=gens.gen_timegm(rng, n), nshards=8 if tier == "quick" else 16)
    run_pipeline(res, binary, "order", gen_lines=gens.gen_utccmp(rng, n // 3), nshards=4)
    res.notes["rule"] = "vectors: every date of the walked years (plus second 60 and the day after each month end) x cycle indices; events: seeded field tuples (70% valid, all u8 corner values, i32 extremes) through UtcDateTime::new and DateTime::new(utc); pairs for the derived order"
    os.remove(vec); os.remove(sel)
    return res.finish()


def check_C16(tier, seed):
    res = Result("C16", tier, seed, "model_checking")
    binary = need_binary(res)
    rng = random.Random(seed * 7919 + 16)
    vec = os.path.join(C.OUT, "C16-vectors.ndjson")
    res.add_mc(run_mc("MC_Nanos", dict(R=300 if tier == "quick" else 2500, EmitVec="TRUE"), workers=C.NCPU, vec_out=vec))
    run_pipeline(res, binary, "vec", vec_path=vec, validate=False)
    n = 20000 if tier == "quick" else 300000
    run_pipeline(res, binary, "random", gen_lines=gens.gen_nanos(rng, n), nshards=8 if tier == "quick" else 16)
    run_pipeline(res, binary, "ns-validation", gen_lines=gens.gen_ns_validation(rng, 2000 if tier == "quick" else 40000), nshards=4)
    res.notes["rule"] = "vectors: every count within R of 17 anchors (multiples of 1e9, i64/i128 ends, date-time range ends); events: seeded i128 counts (log-uniform, anchors, zero crossings) through the three from_total_nanoseconds constructors"
    os.remove(vec)
    return res.finish()


# ---------------------------------------------------------------------------------------------
# zones

def zone_vectors(res, tier, seed, ops, tag):
    """Run the scaled zone model (spec-level theorems + vector emission), group the vectors by zone and keep
    the operations in `ops`. Returns the path of the grouped vector file."""
    raw = os.path.join(C.OUT, f"{res.pid}-zonevec-raw.ndjson")
    maxtr = 2 if tier == "quick" else 3
    consts = dict(MaxTr=maxtr, EmitVec="TRUE", EmitMod=3 if tier == "quick" else 1, EmitRem=seed % 3 if tier == "quick" else 0)
    res.add_mc(run_mc("MC_Zone", consts, workers=C.NCPU, vec_out=raw, timeout=6000, tag=tag, xmx="12g"))
    groups = {}
    order = []
    for l in open(raw):
        v = json.loads(l)
        if v["op"] not in ops:
            continue
        zk = json.dumps(v.pop("zk"), sort_keys=True)
        if zk not in groups:
            groups[zk] = []
            order.append(zk)
        groups[zk].append(v)
    out = os.path.join(C.OUT, f"{res.pid}-zonevec.ndjson")
    with open(out, "w") as f:
        for zk in order:
            f.write(json.dumps({"op": "zone", "a": json.loads(zk), "g": 1}, separators=(",", ":")) + "\n")
            for v in groups[zk]:
                f.write(json.dumps(v, separators=(",", ":")) + "\n")
    os.remove(raw)
    return out


def events_of(*gens_):
    for g in gens_:
        yield from g


def check_C03(tier, seed):
    res = Result("C03", tier, seed, "model_checking")
    binary = need_binary(res)
    rng = random.Random(seed * 7919 + 3)
    vec = zone_vectors(res, tier, seed, {"lookup", "localtime"}, "C03")
    run_pipeline(res, binary, "vec", vec_path=vec, validate=True, nshards=16)
    os.remove(vec)
    q = tier == "quick"
    run_pipeline(res, binary, "sweep", gen_lines=gens.gen_c03_sweep(rng, 64 if q else 300), nshards=8 if q else 16)
    run_pipeline(res, binary, "extreme", gen_lines=gens.gen_c03_extreme(rng, 150 if q else 3000), nshards=4 if q else 16)
    run_pipeline(res, binary, "random", gen_lines=events_of(*(gens.gen_zone_session(rng, gens.gen_table_zone(rng, nmax=20), do_find=False) for _ in range(150 if q else 3000))), nshards=8 if q else 16)
    res.notes["rule"] = "vectors: every zone of the scaled model (<= MaxTr transitions on 0..6, 5 type menus, 6 leap tables, rule none/fixed) x instants -7..14; events: table-length sweep 0..n with probes at every T-1/T/T+1, i64-extreme transition times, seeded random zones"
    return res.finish()


def check_C12(tier, seed):
    res = Result("C12", tier, seed, "model_checking")
    binary = need_binary(res)
    rng = random.Random(seed * 7919 + 12)
    vec = zone_vectors(res, tier, seed, {"lookup", "find"}, "C12")
    run_pipeline(res, binary, "vec", vec_path=vec, validate=True, nshards=16)
    os.remove(vec)
    q = tier == "quick"
    run_pipeline(res, binary, "leaps", gen_lines=gens.gen_c12(rng, 120 if q else 3000), nshards=8 if q else 16)
    res.notes["rule"] = "vectors: scaled zones with leap tables (one record +-1 at 0/2/3/4) x instants; events: random valid leap tables (<= 40 records, both signs) and the real 27-record table with transitions at/around records; lookups reveal the forward conversion, Skipped entries the inverse"
    return res.finish()


def check_C13(tier, seed):
    res = Result("C13", tier, seed, "model_checking")
    binary = need_binary(res)
    rng = random.Random(seed * 7919 + 13)
    raw = os.path.join(C.OUT, "C13-vectors-raw.ndjson")
    res.add_mc(run_mc("MC_Validity", dict(EmitVec="TRUE"), workers=C.NCPU, vec_out=raw, timeout=3000))
    run_pipeline(res, binary, "vec", vec_path=raw, validate=True, nshards=8)
    os.remove(raw)
    q = tier == "quick"
    run_pipeline(res, binary, "defects", gen_lines=gens.gen_c13(rng, 3000 if q else 60000), nshards=8 if q else 16)
    res.notes["rule"] = "vectors: every small zone tuple of MC_Validity (valid ones and each defect); events: seeded valid zones with exactly one defect of each kind (index, order, leap table, rule disagreement in one attribute, i64 extremes), local time types over length 0..9 designations"
    return res.finish()


def check_find(pid, tier, seed):
    res = Result(pid, tier, seed, "model_checking")
    binary = need_binary(res)
    rng = random.Random(seed * 7919 + int(pid[1:]))
    vec = zone_vectors(res, tier, seed, {"find"}, pid)
    if pid == "C17":
        # turn every search vector into buffer-based searches with every buffer length 0..4 (k <= 4 in the scaled model)
        v2 = vec + ".n"
        with open(v2, "w") as f:
            for l in open(vec):
                e = json.loads(l)
                if e["op"] == "find":
                    for n in rng.sample(range(0, 6), 2):
                        a = dict(e["a"]); a["n"] = n
                        f.write(json.dumps({"op": "findn", "a": a}, separators=(",", ":")) + "\n")
                else:
                    f.write(l)
        os.replace(v2, vec)
    run_pipeline(res, binary, "vec", vec_path=vec, validate=True, nshards=16)
    os.remove(vec)
    q = tier == "quick"
    run_pipeline(res, binary, "zones", gen_lines=gens.gen_find_zones(rng, 200 if q else 4000, findn=(pid == "C17")), nshards=8 if q else 16)
    res.notes["rule"] = "vectors: every zone of the scaled model x local seconds -7..14 (expected list and accessors emitted where instants are pairwise distinct); events: seeded valid zones (1..40 transitions, small/tiny/full-range offsets, gaps smaller than offset differences, leap tables, fixed rule), local times within one second of every transition +- offset"
    return res.finish()


def check_C14(tier, seed):
    res = Result("C14", tier, seed, "model_checking")
    binary = need_binary(res)
    rng = random.Random(seed * 7919 + 14)
    vecraw = os.path.join(C.OUT, "C14-vectors.ndjson")
    mc_calendar(res, tier, seed, vecraw)
    os.remove(vecraw)
    q = tier == "quick"
    run_pipeline(res, binary, "constructors", gen_lines=gens.gen_c14(rng, 20000 if q else 300000), nshards=8 if q else 16)
    run_pipeline(res, binary, "find-entries", gen_lines=gens.gen_find_zones(rng, 60 if q else 1500), nshards=8 if q else 16)
    res.notes["rule"] = "MC_Calendar checks DtInv on constructed values for every walked day; events: five constructors, projection and comparison over the whole instant range and i32 offsets; every date-time inside every search result"
    return res.finish()


def run_mc_sharded(res, module, base_consts, shard_key, shards, vec_out, workers_each, timeout=3000, tag=None):
    """Run several TLC instances of the same model with different values of one constant (parallel JVMs)."""
    import threading
    infos, errs = [None] * len(shards), []
    def one(i, val):
        try:
            c = dict(base_consts); c[shard_key] = val
            infos[i] = run_mc(module, c, workers=workers_each, vec_out=f"{vec_out}.{i}", timeout=timeout, tag=f"{tag or module}-{i}", xmx="3g")
        except Exception as e:   # noqa
            errs.append(e)
    ths = [threading.Thread(target=one, args=(i, v)) for i, v in enumerate(shards)]
    [t.start() for t in ths]; [t.join() for t in ths]
    if errs:
        raise errs[0]
    with open(vec_out, "w") as out:
        for i in range(len(shards)):
            p = f"{vec_out}.{i}"
            if os.path.exists(p):
                out.write(open(p).read()); os.remove(p)
    for inf in infos:
        res.add_mc(inf)


ALL_DAY_IDS = list(range(1, 1152))
STRUCT_DAY_IDS = [1, 2, 31, 32, 59, 60, 61, 90, 365, 366, 367, 424, 425, 426, 731,          # J1 J59 J60.. ; 0 1 58 59 60 365
                  732, 766, 767, 795, 801, 802, 830, 836, 1011, 1046, 1116, 1117, 1145, 1151]  # M1.1.0 M1.5.6 M2.1.0 M2.5.0 M3.* M9/M10 M11.5.6 M12.*


def group_by_zone(raw, out, ops=None):
    groups, order = {}, []
    for l in open(raw):
        v = json.loads(l)
        if ops and v["op"] not in ops:
            continue
        zk = json.dumps(v.pop("zk"), sort_keys=True)
        if zk not in groups:
            groups[zk] = []; order.append(zk)
        groups[zk].append(v)
    with open(out, "w") as f:
        for zk in order:
            f.write(json.dumps({"op": "zone", "a": json.loads(zk), "g": 1}, separators=(",", ":")) + "\n")
            for v in groups[zk]:
                f.write(json.dumps(v, separators=(",", ":")) + "\n")


def check_C04(tier, seed):
    res = Result("C04", tier, seed, "model_checking")
    binary = need_binary(res)
    rng = random.Random(seed * 7919 + 4)
    q = tier == "quick"
    days = sorted(set(rng.sample(STRUCT_DAY_IDS, 6 if q else 20) + rng.sample(ALL_DAY_IDS, 3 if q else 16)))
    years = sorted(set(rng.sample([0, 3, 4, 99, 100, 399], 2 if q else 6) + rng.sample(range(400), 2 if q else 30)))
    raw = os.path.join(C.OUT, "C04-vectors-raw.ndjson")
    consts = dict(DayIds=tla_set(days), TimeIdx=tla_set(rng.sample(range(1, 11), 3 if q else 6)), OffIdx=tla_set(rng.sample(range(1, 8), 3 if q else 5)),
                  Years=tla_set(years), EmitVec="TRUE", Cycle=rng.choice([4, 5, 5, 6, -1]))
    res.add_mc(run_mc("MC_Rule", consts, workers=C.NCPU, vec_out=raw, timeout=6000, xmx="12g"))
    vec = os.path.join(C.OUT, "C04-zonevec.ndjson")
    group_by_zone(raw, vec); os.remove(raw)
    run_pipeline(res, binary, "vec", vec_path=vec, validate=True, nshards=16)
    os.remove(vec)
    run_pipeline(res, binary, "rules", gen_lines=gens.gen_c04(rng, 400 if q else 8000), nshards=12 if q else 16)
    res.notes["rule"] = "vectors: family of accepted rules (day-notation representatives x times x offset pairs) probed at S(y)-1, S(y), E(y)-1, E(y), New Year +-1 for sampled years of a cycle; events: corpus-shaped and seeded random accepted rules (all nine notation pairs, near-coincident days, |time| up to 7 days, offsets over the whole window) probed at S/E(y-1..y+1) +-1 s, New Year +-1 s/h/d, the year guard"
    return res.finish()


def check_C11(tier, seed):
    res = Result("C11", tier, seed, "model_checking")
    binary = need_binary(res)
    rng = random.Random(seed * 7919 + 11)
    q = tier == "quick"
    raw = os.path.join(C.OUT, "C11-vectors-raw.ndjson")
    starts = sorted(set(rng.sample(STRUCT_DAY_IDS, 10 if q else 29) + rng.sample(ALL_DAY_IDS, 14 if q else 100)))
    ends = sorted(set(STRUCT_DAY_IDS + rng.sample(ALL_DAY_IDS, 30 if q else 200)))
    # literal 400-year definition on a sub-sample, derived decision on all selected pairs
    res.add_mc(run_mc("MC_Cons", dict(StartIds=tla_set(rng.sample(starts, 4)), EndIds=tla_set(rng.sample(ends, 12)), EmitVec="FALSE", Literal="TRUE"), workers=C.NCPU, tag="C11-literal", timeout=3000))
    res.add_mc(run_mc("MC_Cons", dict(StartIds=tla_set(starts), EndIds=tla_set(ends), EmitVec="TRUE", Literal="FALSE"), workers=C.NCPU, vec_out=raw, timeout=6000, xmx="12g"))
    run_pipeline(res, binary, "vec", vec_path=raw, validate=False)
    os.remove(raw)
    run_pipeline(res, binary, "rules", gen_lines=gens.gen_c11(rng, 6000 if q else 100000), nshards=12 if q else 16)
    res.notes["rule"] = "vectors: for each selected ordered pair of day notations, the constructor is called at every decision breakpoint k*86400 + {-1,0,1} of d (several time/offset splits incl. window edges); events: seeded rules (80% with start/end days within 20 days), window-edge offsets and times, invalid rule days"
    res.notes["pairs_selected"] = len(starts) * len(ends)
    return res.finish()


def check_C18(tier, seed):
    res = Result("C18", tier, seed, "model_checking")
    binary = need_binary(res)
    rng = random.Random(seed * 7919 + 18)
    raw = os.path.join(C.OUT, "C18-vectors-raw.ndjson")
    res.add_mc(run_mc("MC_Format", dict(EmitVec="TRUE"), workers=C.NCPU, vec_out=raw, timeout=3000))
    run_pipeline(res, binary, "vec", vec_path=raw, validate=False)
    os.remove(raw)
    q = tier == "quick"
    run_pipeline(res, binary, "render", gen_lines=gens.gen_render(rng, 20000 if q else 300000), nshards=8 if q else 16)
    res.notes["rule"] = "vectors: corner grid of years (incl. i32 ends, 1..5 digit, negative) x dates x times (incl. second 60) x ns x offsets (0, +-1, around 60/3600/36000/86400/360000, i32 ends) with Read(Render(x)) = x model-checked; events: seeded date-times from timestamps and from fields with offsets over the whole i32 range; the rendered bytes must equal Render and the independent reader must recover fields/ns/offset"
    return res.finish()


def check_C09(tier, seed):
    res = Result("C09", tier, seed, "model_checking")
    binary = need_binary(res)
    rng = random.Random(seed * 7919 + 9)
    q = tier == "quick"
    raw = os.path.join(C.OUT, "C09-vectors-raw.ndjson")
    res.add_mc(run_mc("MC_TzString", dict(EmitVec="TRUE", MaxTok=3 if q else 4, PartA="TRUE", PartB="TRUE"), workers=C.NCPU, vec_out=raw, timeout=6000, xmx="8g"))
    run_pipeline(res, binary, "vec", vec_path=raw, validate=False)
    os.remove(raw)
    run_pipeline(res, binary, "strings", gen_lines=gens.gen_tzstrings(rng, 6000 if q else 100000), nshards=12 if q else 16)
    res.notes["rule"] = "vectors: sentences assembled from components carrying their denotation (all spellings of names, offsets, days, times; one or two slots varied at a time; truncations) and every string of <= MaxTok tokens of a 20-token alphabet, each through the settings path (extensions off), a v2 footer (off) and a v3 footer (on); events: seeded sentences, full component products and single/double byte edits incl. NUL, non-UTF-8 and interior whitespace"
    return res.finish()


def check_C08(tier, seed):
    res = Result("C08", tier, seed, "model_checking")
    binary = need_binary(res)
    rng = random.Random(seed * 7919 + 8)
    q = tier == "quick"
    raw = os.path.join(C.OUT, "C08-vectors-raw.ndjson")
    res.add_mc(run_mc("MC_TzFile", dict(EmitVec="TRUE", CMod=29 if q else 3, CRem=seed % (29 if q else 3)), workers=C.NCPU, vec_out=raw, timeout=6000, xmx="12g"))
    run_pipeline(res, binary, "vec", vec_path=raw, validate=False)
    os.remove(raw)
    files = gens.select_files(rng, 60) if q else gens.corpus_files()
    res.notes["corpus_files_decoded"] = len(files)
    run_pipeline(res, binary, "corpus", gen_lines=gens.gen_corpus_decode(rng, files), nshards=12 if q else 16, min_events=5)
    run_pipeline(res, binary, "corpus-mutations", gen_lines=gens.gen_corpus_mutations(rng, files, 6 if q else 20), nshards=12 if q else 16, min_events=30)
    res.notes["rule"] = "vectors: small zones written by the TLA+ encoder in v1/v2/v3 (32-bit block of v2+ holds a different zone; shared-suffix and empty designations; all indicator vectors; plain and extended footers) with Decode(Encode(z)) = z model-checked, plus every truncation and single-byte corruption of a share of them with the spec decoder's verdict; events: real tzdata 2025b files (posix and right/ trees) decoded by the TLA+ decoder inside TLC and compared with the crate's zone, and single-field corruptions of real files"
    return res.finish()


def check_C20(tier, seed):
    res = Result("C20", tier, seed, "model_checking")
    binary = need_binary(res)
    rng = random.Random(seed * 7919 + 20)
    q = tier == "quick"
    raw = os.path.join(C.OUT, "C20-vectors-raw.ndjson")
    res.add_mc(run_mc("MC_Resolve", dict(EmitVec="TRUE", MaxDirs=2 if q else 3), workers=C.NCPU, vec_out=raw, timeout=6000, xmx="8g"))
    run_pipeline(res, binary, "vec", vec_path=raw, validate=True, nshards=16, min_events=100)
    os.remove(raw)
    run_pipeline(res, binary, "random", gen_lines=gens.gen_resolve(rng, 3000 if q else 60000), nshards=12 if q else 16, min_events=100)
    res.notes["rule"] = "vectors: 16 TZ values (empty, localtime, ':' forms, absolute, relative, padded, descriptions, names that are also descriptions) x directory lists (<= MaxDirs of 3 names incl. a relative one and repeats) x every {absent, valid, malformed, unreadable} assignment to the planned paths, with and without valid decoy files at every path a wrong reading would open; events: seeded longer directory lists, names with '/', doubled ':', surrounding whitespace; the recorded sequence of requested paths and the outcome are validated by TLC"
    return res.finish()


def check_C10(tier, seed):
    import refs
    res = Result("C10", tier, seed, "other")
    binary = need_binary(res)
    rng = random.Random(seed * 7919 + 10)
    q = tier == "quick"
    files = gens.select_files(rng, 48) if q else gens.corpus_files()
    res.notes["corpus_files"] = len(files)
    def events():
        for rel in files:
            yield from refs.gen_file_session(rng, rel, max_tr=30 if q else 400, nrandom=10 if q else 40)
    run_pipeline(res, binary, "files", gen_lines=events(), nshards=16, min_events=300)
    def sevents():
        for s in refs.POSIX_STRINGS:
            yield from refs.gen_string_session(rng, s)
        for _ in range(20 if q else 400):
            yield from refs.gen_string_session(rng, refs.rand_posix_string(rng))
    run_pipeline(res, binary, "strings", gen_lines=sevents(), nshards=8, min_events=300)
    res.notes["explanation"] = ("Differential conformance of three implementations to one specification: for each tzdata 2025b file the trace holds the crate's lookups "
                                "and searches and the observations of glibc (time.tzset/localtime with TZ=:/path; right/ files at the leap count) and CPython zoneinfo "
                                "(ZoneInfo.from_file) at every selected transition -1/0/+1, seeded instants 1900-2500 and footer-governed years; TLC validates every "
                                "observation of every implementation against TypeAt / ValidInstants of the zone decoded from the file. mktime: the instants each "
                                "reference implies (preimage of its own forward function) must equal the spec's set, which the crate's search is validated against.")
    res.notes["rule"] = "quick: 48 files (24 fixed interesting + seeded), <= 30 transitions each; thorough: all 894 files, <= 400 transitions each; 13 fixed + seeded POSIX TZ strings vs glibc's TZ parser"
    return res.finish()


CHECKS = {"C10": check_C10, "C20": check_C20, "C08": check_C08, "C09": check_C09, "C18": check_C18, "C04": check_C04, "C11": check_C11, "C01": check_C01, "C02": check_C02, "C16": check_C16, "C03": check_C03, "C12": check_C12, "C13": check_C13,
          "C05": lambda t, s: check_find("C05", t, s), "C06": lambda t, s: check_find("C06", t, s), "C17": lambda t, s: check_find("C17", t, s),
          "C14": check_C14}


def main(argv):
    if not argv:
        print(__doc__)
        return 2
    if argv[0] == "setup":
        b, err = build_harness("chk")
        if b is None:
            print(err)
            return 2
        return 0
    ap = argparse.ArgumentParser()
    ap.add_argument("pid")
    ap.add_argument("--tier", default=os.environ.get("VERIF_TIER", "quick"))
    args = ap.parse_args(argv)
    if args.pid not in CHECKS:
        print(f"unknown property {args.pid}")
        return 2
    os.makedirs(C.OUT, exist_ok=True)
    try:
        return CHECKS[args.pid](args.tier, seed_of())
    except ToolError as e:
        print("TOOL-ERROR:", e)
        return 2
