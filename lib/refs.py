"""Reference recorders for C10: CPython zoneinfo and glibc (through time.tzset / time.localtime) observations of the same
TZif files, logged as events that the trace specification judges against the same TLA+ definitions as tz-rs."""
import datetime, os, struct, time, zoneinfo
from common import W, B
import gens

ZI_MIN = -62135596800 + 3 * 86400      # datetime year 1 .. 9999
ZI_MAX = 253402300799 - 3 * 86400


def zoneinfo_obs(zi, u):
    if not (ZI_MIN <= u <= ZI_MAX):
        return None
    d = datetime.datetime.fromtimestamp(u, zi)
    off = d.utcoffset()
    return {"off": off.days * 86400 + off.seconds, "des": B(d.tzname() or ""), "dst": -1}


def set_glibc_tz(value):
    os.environ["TZ"] = value
    time.tzset()


def glibc_obs(t):
    try:
        tm = time.localtime(t)
    except (OverflowError, OSError, ValueError):
        return None
    return {"off": tm.tm_gmtoff, "des": B(tm.tm_zone or ""), "dst": 1 if tm.tm_isdst > 0 else 0}


def ref_transitions(obs_fn, t0, t1, step=86400 * 5):
    """instants in [t0, t1] at which a reference's answer changes (coarse scan + bisection); generator-side, to aim probes"""
    out = []
    key = lambda t: (lambda o: None if o is None else (o["off"], bytes(o["des"])))(obs_fn(t))
    a, ka = t0, key(t0)
    t = t0
    while t < t1:
        b = min(t + step, t1)
        kb = key(b)
        if ka is not None and kb is not None and kb != ka:
            lo, hi = t, b
            while hi - lo > 1:
                mid = (lo + hi) // 2
                if key(mid) == ka:
                    lo = mid
                else:
                    hi = mid
            out.append(hi)
        t, ka = b, kb
    return out


def mk_events(rng, L, offs, impls, findn=False):
    """the crate's search for local time L and the instants each reference implies for it (preimage of its forward function)"""
    f = gens.fields_of_local(L, 0)
    if findn:
        fn = dict(f); fn["n"] = rng.randint(0, 3)
        yield {"op": "findn", "a": fn}
    yield {"op": "find", "a": f}
    for impl, obs_fn in impls:
        implied = set()
        ok = True
        for oo in offs:
            cand = L - oo
            obs = obs_fn(cand)
            if obs is None:
                ok = False
                break
            if cand + obs["off"] == L:
                implied.add(cand)
        if ok:
            ff = dict(f)
            ff.update({"impl": impl, "set": [W(x) for x in sorted(implied)]})
            yield {"op": "refmk", "a": ff}


def file_offsets(data):
    """distinct UT offsets of the block a reader must use (to enumerate mktime candidates for the references)"""
    def hdr(p):
        return data[p + 4], struct.unpack(">6I", data[p + 20:p + 44])
    ver, (isut, isstd, leap, tcnt, typ, char) = hdr(0)
    p = 44
    tsz = 4
    if ver != 0:
        p += tcnt * 4 + tcnt + typ * 6 + char + leap * 8 + isstd + isut
        ver, (isut, isstd, leap, tcnt, typ, char) = hdr(p)
        p += 44
        tsz = 8
    pt = p + tcnt * tsz + tcnt
    return sorted({struct.unpack(">i", data[pt + 6 * i: pt + 6 * i + 4])[0] for i in range(typ)})


def gen_file_session(rng, rel, max_tr=40, nrandom=15, mk=True, by_name=False):
    ev, data = gens.corpus_event(rel)
    if by_name:
        # the same file reached the way a user reaches it: as a TZ value resolved against a zoneinfo directory (the references get
        # TZ=:/path). Names such as EST5EDT or GMT0 look like descriptions; the file still wins.
        ev = {"op": "resolve", "a": {"s": B(rel), "dirs": [B("/usr/share/zoneinfo")], "vfs": [[B("/usr/share/zoneinfo/" + rel), list(data)]], "via": "posix"}, "g": 1}
    path = os.path.join(gens.CORPUS, rel)
    is_right = rel.startswith("right/")
    times, leaps = gens.parse_tzif_times(data)
    yield ev
    zi = None
    if not is_right:
        with open(path, "rb") as f:
            zi = zoneinfo.ZoneInfo.from_file(f)
    set_glibc_tz(":" + path)
    sel = times if len(times) <= max_tr else sorted(rng.sample(times, max_tr - 6) + times[:3] + times[-3:])
    corr_at = lambda L: ([c for (r, c) in leaps if r < L] or [0])[-1]      # generator-side: leap count -> approximate UTC, to aim crate probes
    probes = set()
    for t in sel:
        for d in (-1, 0, 1):
            probes.add(t + d)
    for _ in range(nrandom):
        probes.add(rng.randint(-2208988800, 16725225600))                  # 1900 .. 2500
    for y in (2030, 2037, 2038, 2100, 2400):
        probes.add(gens.days_from_civil(y, rng.randint(1, 12), rng.randint(1, 28)) * 86400 + rng.randint(0, 86399))
    for (r, c) in leaps[-4:]:
        for d in (-1, 0, 1):
            probes.add(r + d)
    offs = file_offsets(data)
    for t in sorted(probes):
        # t is on the file's own scale (leap count for right/). glibc takes it as is; tz-rs and zoneinfo take UTC.
        u = t - corr_at(t) if is_right else t
        yield {"op": "lookup", "a": {"u": W(u), "via": "owned"}}
        g = glibc_obs(t)
        if g is not None:
            yield {"op": "ref", "a": {"impl": "glibc", "scale": "leap" if is_right else "utc", "t": W(t), "obs": g}}
        if zi is not None:
            o = zoneinfo_obs(zi, t)
            if o is not None:
                yield {"op": "ref", "a": {"impl": "zoneinfo", "scale": "utc", "t": W(t), "obs": o}}
    if mk and is_right:
        # right/ files: the crate's own searches around the transitions that lie within a day of a leap second (the spec is the arbiter;
        # glibc's mktime works on the leap-count scale and is not used here)
        for t in times:
            if any(abs(t - r0) <= 90000 for (r0, _) in leaps):
                u = t - corr_at(t)
                for o in offs:
                    for d in (-2, -1, 0, 1):
                        yield {"op": "find", "a": gens.fields_of_local(u + o + d, 0)}
    if mk and not is_right:
        recent = [t for t in sel if t >= 0][-12:]
        exact = [(t, o, d) for t in recent[-3:] for o in offs for d in (-1, 0, 1)]          # the exact boundary seconds of the last transitions
        for (t, o, d0) in [(t, o, None) for t in recent for o in offs[:4]] + exact:
            if True:
                L = t + o + (d0 if d0 is not None else rng.choice([-3600, -1, 0, 1, 1800, 3600, 10800, -10800]))
                f = gens.fields_of_local(L, 0)
                yield {"op": "find", "a": f}
                # instants implied by each reference: preimage of its own forward function over the zone's offsets
                for impl in ("glibc", "zoneinfo"):
                    implied = set()
                    ok = True
                    for oo in offs:
                        cand = L - oo
                        obs = glibc_obs(cand) if impl == "glibc" else zoneinfo_obs(zi, cand)
                        if obs is None:
                            ok = False
                            break
                        if cand + obs["off"] == L:
                            implied.add(cand)
                    if ok:
                        ff = dict(f)
                        ff.update({"impl": impl, "set": [W(x) for x in sorted(implied)]})
                        yield {"op": "refmk", "a": ff}
        # transitions generated by the footer's rule, beyond the last recorded one: the exact boundary seconds, searched through
        # the allocating and the buffer-based search (one reused buffer), against both references
        y0 = rng.choice([2038, 2040, 2041, 2099, 2100, 2399])
        t0 = gens.days_from_civil(y0, 1, 1) * 86400
        if (not times or t0 > times[-1]) and zi is not None:
            impls = (("glibc", glibc_obs), ("zoneinfo", lambda c: zoneinfo_obs(zi, c)))
            for T in ref_transitions(lambda c: zoneinfo_obs(zi, c), t0, t0 + 366 * 86400)[:2]:
                for d in (-1, 0, 1):
                    yield {"op": "lookup", "a": {"u": W(T + d), "via": "owned"}}
                    yield {"op": "ref", "a": {"impl": "glibc", "scale": "utc", "t": W(T + d), "obs": glibc_obs(T + d)}}
                a, b = min(offs), max(offs)
                near = {o for o in offs if any(o == zoneinfo_obs(zi, T + dd)["off"] for dd in (-1, 0))}
                for o in sorted(near):
                    for d in (-1, 0, 1):
                        yield from mk_events(rng, T + o + d, offs, impls, findn=True)
                yield from mk_events(rng, T + 86400 * 30 + 43200, offs, impls, findn=True)      # an ordinary time: fewer results in the same buffer


POSIX_STRINGS = ["AAA-3BBB,0/0,J300", "AAA3BBB2,J100/2,J100/3", "STD0DST-1,M4.2.0/2,M4.2.0/3", "<+0030>-0:30", "XXX-0:44:30", "<-0030>0:30", "AAA-0:30BBB-1:30,M3.2.0/0:30,M10.5.0/0:00:30", "EST5EDT,M3.2.0,M11.1.0", "CET-1CEST,M3.5.0,M10.5.0/3", "AEST-10AEDT,M10.1.0,M4.1.0/3", "NZST-12NZDT,M9.5.0,M4.1.0/3", "UTC0", "<-03>3", "<+0530>-5:30",
                 "IST-1GMT0,M10.5.0,M3.5.0/1", "EST5EDT,J60,J300", "EST5EDT,59,299/0", "PST8PDT,M3.2.0/2:30,M11.1.0/1:15:30", "HST10", "WART4WARST,J1/0,J365/24"]


def gen_string_session(rng, s):
    yield {"op": "resolve", "a": {"s": B(s), "dirs": [], "vfs": [], "via": "posix"}, "g": 1}
    set_glibc_tz(s)
    for _ in range(40):
        y = rng.randint(1971, 2400)
        t = gens.days_from_civil(y, rng.randint(1, 12), rng.randint(1, 28)) * 86400 + rng.randint(0, 86399)
        yield {"op": "lookup", "a": {"u": W(t), "via": "owned"}}
        g = glibc_obs(t)
        # glibc evaluates a rule for the calendar year of the instant only (see below): within 8 days of a New Year it is not a
        # reference for a description whose start or end spills over New Year; the crate is still judged there by the specification
        near_ny = min(abs(t - gens.days_from_civil(y + k, 1, 1) * 86400) for k in (0, 1)) <= 8 * 86400
        if g is not None and not near_ny:
            yield {"op": "ref", "a": {"impl": "glibc", "scale": "utc", "t": W(t), "obs": g}}
    # every whole hour within 26 h of one New Year (a start or end written for 1 January or 31 December lands there, in the
    # neighbouring UTC year): the crate against the specification only (glibc is not a reference this close to New Year), and the
    # instant -> local time -> search round trip, which must hold whatever the clock is
    ny = gens.days_from_civil(rng.randint(1971, 2400), 1, 1) * 86400
    for k in range(-26, 27):
        yield {"op": "lookup", "a": {"u": W(ny + 3600 * k), "via": "owned"}}
        if k % 4 == 0:
            yield {"op": "roundtrip", "a": {"u": W(ny + 3600 * k + rng.choice([-1, 0, 1])), "ns": 0}}
    for _ in range(6):
        yield {"op": "roundtrip", "a": {"u": W(gens.days_from_civil(rng.randint(1971, 2400), rng.randint(1, 12), rng.randint(1, 28)) * 86400 + rng.randint(0, 86399)), "ns": 0}}
    # the rule's own transitions in one year, to the second: lookups and searches (both forms) against glibc
    y0 = rng.randint(1971, 2400)
    t0 = gens.days_from_civil(y0, 1, 1) * 86400
    # glibc evaluates a rule for the calendar year of the instant only: where a start or end spills over New Year (all-year DST
    # written as J1/0,J365/24, times beyond 24 h late in December) it reports changes AT New Year that POSIX does not prescribe.
    # Its changes within 8 days of a New Year are therefore not used to aim exact-second comparisons (random instants still are).
    nys = [gens.days_from_civil(y0 + k, 1, 1) * 86400 for k in (0, 1)]
    trs = [T for T in ref_transitions(glibc_obs, t0, t0 + 366 * 86400) if all(abs(T - ny) > 8 * 86400 for ny in nys)][:2]
    all_trs = ref_transitions(glibc_obs, t0 - 366 * 86400, t0 + 2 * 366 * 86400, step=86400)
    offs = sorted({glibc_obs(t0 + k * 86400 * 30)["off"] for k in range(13)} | {glibc_obs(T + d)["off"] for T in all_trs for d in (-1, 0)})
    for T in trs:
        for d in (-1, 0, 1):
            yield {"op": "lookup", "a": {"u": W(T + d), "via": "owned"}}
            yield {"op": "ref", "a": {"impl": "glibc", "scale": "utc", "t": W(T + d), "obs": glibc_obs(T + d)}}
        for o in offs:
            for d in (-1, 0, 1):
                yield from mk_events(rng, T + o + d, offs, (("glibc", glibc_obs),), findn=True)
    yield from mk_events(rng, t0 + 86400 * 200 + 43200, offs, (("glibc", glibc_obs),), findn=True)


def rand_posix_string(rng):
    names = ["EST", "EDT", "CET", "CEST", "<-03>", "<+0530>", "ABCD", "PST", "PDT"]
    def off():
        return rng.choice(["5", "-1", "8", "-10", "3:30", "-5:45", "0", "12", "-12", "4:30:15", "-0:30", "0:45", "-0:00:30", "-0:44:30"])
    def day():
        k = rng.random()
        if k < 0.6:
            return f"M{rng.randint(1, 12)}.{rng.randint(1, 5)}.{rng.randint(0, 6)}"
        if k < 0.8:
            return f"J{rng.randint(1, 365)}"
        return str(rng.randint(0, 364))
    def tm():
        return rng.choice(["", "/2", "/3", "/0", "/1:30", "/23:59:59", "/24"])
    a, b = rng.sample(range(1, 13), 2)
    d1, d2 = day(), day()
    # keep start and end months apart so that the rule is accepted by both parsers
    d1 = f"M{a}.{rng.randint(1, 4)}.{rng.randint(0, 6)}"
    d2 = f"M{(a + 5) % 12 + 1}.{rng.randint(1, 4)}.{rng.randint(0, 6)}" if rng.random() < 0.7 else d2
    o = off()
    return rng.choice(names) + o + rng.choice(names) + rng.choice(["", ""]) + "," + d1 + tm() + "," + d2 + tm()
