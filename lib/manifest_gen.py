"""Generates MANIFEST.json from the table below (single source of truth for what is claimed)."""
import json, os
VERIF = os.path.dirname(os.path.dirname(os.path.abspath(__file__)))
ALL = [f"C{i:02d}" for i in range(1, 21)]

CLAIMED = {
 "C01": dict(cat="model_checking", ref="§C01",
   text="TLC model-checks the declarative calendar (axiomatic successor-day walk over the 400-year cycle vs the arithmetic definitions, range constants, wide conversions) and emits gmtime vectors that are replayed into the crate; seeded instants over the whole i64 range are executed and the recorded trace is validated event by event by TLC against the same specification (all fields, week day, year day, refusals, plus the date-time invariant).",
   note="Trusted: TLC/SANY/CommunityModules, the TLA+ calendar axioms, harness limb/byte formatting. Quick tier walks a seeded sample of 40 of the 400 years and a third of their days; thorough walks all. Conformance is exhaustive only on the emitted vectors, sampled beyond.",
   tech="TLA+ spec (Cal/DateTime, algorithm layer AlgoCal refined by TLC on every walked day) + TLC model checking + TLC-generated vectors replayed + TLC trace validation"),
 "C02": dict(cat="model_checking", ref="§C02",
   text="Same calendar model: TLC checks timegm = inverse of gmtime on every walked day, second 60 = next minute, strict monotonicity, refusal of the day after each month end; emits timegm vectors (valid and refused) replayed into UtcDateTime::new and DateTime::new; seeded field tuples (valid and invalid, all u8 corners, i32 extremes) and ordered pairs are trace-validated by TLC (verdict, error kind, unix time, derived order = order of instants for seconds < 60).",
   note="Trusted as C01. Error kinds with several simultaneous defects are judged against the set of violated clauses.",
   tech="TLA+ spec (Cal/DateTime, algorithm layer AlgoCal) + TLC model checking + vectors replayed + TLC trace validation"),
 "C16": dict(cat="model_checking", ref="§C16",
   text="TLC checks the split/join laws (floor, 0<=ns<1e9, recombination, monotone steps) on wide integers within R of 19 anchors (multiples of 1e9, i64 and i128 ends of the seconds and of the count itself, range ends) and emits vectors for the three from_total_nanoseconds constructors; seeded i128 counts (incl. range-end counts through fixed-offset zones) are trace-validated. Thorough tier: TLAPS proof of the split laws for every integer count (uniqueness of floor, monotonicity, successor).",
   note="Trusted: Wide.tla (itself model-checked against TLC's native integers by MC_Wide), TLC, harness formatting.",
   tech="TLA+ spec (Wide/DateTime) + TLC model checking + vectors replayed + TLC trace validation (+ TLAPS proof of the split laws, thorough)"),
 "C03": dict(cat="model_checking", ref="§C03",
   text="TLC model-checks the scaled zone model (all zones with <= 2 (quick) / 3 (thorough) transitions on a 7-second grid, 5 type menus incl. equal offsets and no-op transitions, 6 leap tables, rule none/fixed; theorems: clock changes only at transitions, round trips, totality) and emits one lookup/localtime vector per (zone, instant) replayed into TimeZoneRef/TimeZone/DateTime::from_timespec; a table-length sweep (every parity of the binary search), i64-extreme transition times and seeded zones are recorded and validated by TLC against TypeAt ('latest transition <= instant'). The algorithm layer (Algo.tla: lookup and leap scans in the shape of the Rust) is model-checked to refine the declarative definitions on every scaled zone, and every recorded lookup is also compared with it. Thorough tier: PlusCal binary search / leap scan (AlgoSearch) and a TLAPS proof of the binary search for tables of any length.",
   note="Trusted: TLC, the declarative TypeAt/ToLeap definitions, harness formatting. Beyond the scaled model and the sweep the zone space is sampled (seed in evidence).",
   tech="TLA+ spec (Zone, Algo) + TLC model checking of the scaled zone model + vectors replayed + TLC trace validation (+ TLAPS proof of the search loop, thorough)"),
 "C05": dict(cat="model_checking", ref="§C05",
   text="Search results are judged against the preimage of the zone's clock (ValidInstants) computed by the TLA+ spec: soundness, completeness, no duplicates, each entry's fields/type/instant. Exhaustive on the scaled zone model (TLC also proves round trip and totality there), sampled on seeded zones with leap tables, full-range offsets, overlapping candidates and trailing rules; every event is validated by TLC. The search walk of the algorithm layer (Algo.tla: AFind, the table walk and the rule window walk in the shape of find_date_time) is model-checked to return exactly the declarative entries on every scaled zone and on a family of rule zones, every recorded search is also compared with it, and the recorded finding K1 is reproduced by TLC as a required-to-fail witness.",
   note="Outside MustSucceed (a candidate instant outside the supported range, year outside the rule guard) OutOfRange or the exact content are both admitted. Rules with start = end in every year are outside the judged domain. On zones of the recorded classes K1/K2 a disagreement is the known finding only if the result equals the algorithm layer's (as-implemented) and its tag is one the finding explains.",
   tech="TLA+ spec (Find, Algo) + TLC model checking incl. refinement of the search walk + vectors replayed + TLC trace validation (+ TLAPS proofs of the table walk and the rule window for inputs of any size, thorough)"),
 "C06": dict(cat="model_checking", ref="§C06",
   text="Gaps are specified per transition at which the clock jumps (coincident rule instants - all-year DST, an empty DST period - cancel), results must be a permutation-free match of ValidInstants + Gaps in non-decreasing order of instant, and unique/earliest/latest must be the functions of the returned list the statement describes; exhaustive on the scaled model, sampled beyond, all validated by TLC.",
   note="As C05. Order among equal instants is unconstrained, as the statement leaves it. A genuine defect (a Skipped entry reported at coincident rule instants, e.g. all-year DST) was found and repaired: see known_findings.json 'fixed'.",
   tech="TLA+ spec (Find, Algo) + TLC model checking + vectors replayed + TLC trace validation (+ TLAPS proofs of the table walk and the rule window, thorough)"),
 "C12": dict(cat="model_checking", ref="§C12",
   text="The two time scales are defined from the physical meaning of leap records; TLC checks monotonicity, round trip for non-deleted instants, inserted second sharing, and 'reported transition instant = switch point of the forward lookup' on the scaled model; lookups (forward conversion) and Skipped entries (inverse conversion) on probe zones with random valid tables (both signs, <= 40 records) and the real 27-record table are validated by TLC. Thorough tier: TLAPS proofs of the forward scan and of the repaired inverse conversion for leap tables of any length.",
   note="A genuine defect (negative leap second at a transition's own count) was found and repaired: see known_findings.json 'fixed'.",
   tech="TLA+ spec (Zone leap relations, Algo) + TLC model checking + vectors replayed + TLC trace validation (+ TLAPS proofs of both conversions, thorough)"),
 "C13": dict(cat="model_checking", ref="§C13",
   text="ZoneVerdict (set of admissible outcomes) is model-checked for well-formedness on all small tuples (51 k), each emitted as a construction vector through both constructors; seeded valid zones with exactly one defect of each kind (incl. i64/i32 extremes) and local time types over all designation shapes are validated by TLC: accept/refuse, error kind, owned = borrowed, accessors echo the arguments.",
   note="With several simultaneous defects any violated clause's error is admitted; with one defect exactly its error.",
   tech="TLA+ spec (Zone validity) + TLC model checking + vectors replayed + TLC trace validation"),
 "C14": dict(cat="model_checking", ref="§C14",
   text="DtInv (fields = civil(unix + offset) with second 60 carried, week day, year day, total nanoseconds) is checked by TLC on the spec's own constructors for every walked day and is a global invariant of the trace spec: every date-time in every event of every check is tested. Dedicated events: all constructors, projection (instant and ns preserved, fields/type from the target zone), equality/order by (instant, ns) only, refusal of invalid fields and out-of-range instants. The bounded system model (TzRs.tla: zone, buffer and date-time values carried from call to call) is explored exhaustively and every one of its behaviours is replayed as a client session of the crate with each observation compared (MC_Session).",
   note="Whether from_timespec_and_local must refuse an instant outside the range whose local reading is representable is left open by the statement: both outcomes admitted.",
   tech="TLA+ spec (DateTime, system model TzRs) + TLC model checking + every behaviour of the bounded system model replayed as a client session + TLC trace validation (global invariant)"),
 "C17": dict(cat="model_checking", ref="§C17",
   text="The trace spec carries the client's buffer as a state variable across calls: after each find_n(n) the whole buffer must equal 'first min(n,k) results of the allocating search, other slots unchanged (stale entries kept)', count = k, exhaustive iff n >= k, same error, accessors equal when exhaustive. Driven on every (zone, local time) of the scaled model with buffer lengths 0..5 and on seeded zones. The buffer frame is an action property of the system model (TzRs.BufFrame) checked by TLC on all bounded sessions, and each of those sessions is replayed on the crate (MC_Session), stale slots included.",
   note="The allocating search's own result in the same event is the reference list (and is itself judged as in C05/C06).",
   tech="TLA+ system model with buffer state (action property by TLC) + its behaviours replayed as client sessions + TLC trace validation + scaled-model vectors"),
 "C04": dict(cat="model_checking", ref="§C04",
   text="DST periods are defined by orientation ([S(y),E(y)) for a northern rule, [S(y),E(y+1)) for a southern one) with S/E from declarative day notations; TLC checks the Mm.w.d reading against its arithmetic form on all 420 notations x 400 years, the period laws (start inclusive, end exclusive, no change at New Year) on a rule family, and emits lookups at S(y)-1, S(y), E(y)-1, E(y), New Year +-1 replayed through rule-only zones; seeded accepted rules (all notation pairs, near-coincident days, |time| up to 7 days, whole offset window, corpus-shaped rules) are probed at every start/end instant of three years +-1 s, at New Year and at the edges of the year guard, and validated by TLC. The 12-leaf evaluator of the algorithm layer (Algo.tla) is model-checked to refine the period definition on the rule family (K2 excluded, and reproduced by TLC as a required-to-fail witness). Thorough tier: TLAPS proof of the evaluator for every interleaving rule and every year (S, E, New Year as unconstrained functions; the southern case needs E(y) < S(y) in the current year - exactly K2).",
   note="Rules that do not interleave are outside the statement's quantifier (either type admitted); rules with start = end in every year are unspecified. Known finding K2 (southern rules with coincident start/end) is reported as KNOWN-FINDING.",
   tech="TLA+ spec (Rule, Algo) + TLC model checking incl. refinement of the rule evaluator + vectors replayed + TLC trace validation (+ TLAPS proof of the evaluator, thorough)"),
 "C11": dict(cat="model_checking", ref="§C11",
   text="The acceptance criterion is the statement's literal year-by-year 'never flips' definition over a 400-year cycle; TLC derives from it, per ordered pair of day notations, the six integers that decide every d, checks the derivation against the literal definition on concrete rules, and emits constructor calls at every decision breakpoint k*86400 + {-1,0,1} (eight time/offset splits incl. window edges; beyond one week of d every feasible split) that are replayed; seeded rules, window-edge offsets/times, invalid rule days and whole rules around a day one step outside its range are validated by TLC with the specific error.",
   note="Quick tier: ~2 500 selected pairs (structural families incl. all same/adjacent-month Mm.w.d shapes + seeded sample); thorough: all 1 151^2 = 1 324 801 ordered pairs (16 TLC JVMs print the verdict at every breakpoint; a native sweep calls the constructor at each through eight splits).",
   tech="TLA+ spec (Rule: Consistent/RuleSummary) + TLC model checking (MC_Cons) + vectors replayed + TLC trace validation"),
 "C18": dict(cat="model_checking", ref="§C18",
   text="Render and an independently written Read (scanning from the right) are model-checked for Read(Render(x)) = x and the stated shape on a corner grid (81 k states: i32 year ends, 1-5 digit and negative years, second 60, ns corners, offsets around 60/3600/36000/86400/360000 and the i32 ends); the grid is replayed through DateTime::new().to_string(); seeded date-times over the whole offset range are rendered by the crate and TLC checks bytes = Render, shape, and that the reader recovers fields/ns/offset.",
   note="Trusted: Format.tla's reading of the statement.",
   tech="TLA+ spec (Format) + TLC model checking + vectors replayed + TLC trace validation"),
 "C09": dict(cat="model_checking", ref="§C09",
   text="A TLA+ recogniser-with-denotation for the grammar (both extension modes) is model-checked against a generative model: sentences assembled from components that carry their own denotation must parse to exactly the composed rule, bad components must be rejected, plain sentences mean the same with extensions. All component families and every string of <= 3 (thorough 4) tokens are replayed through the three public paths (settings = off, v2 footer = off, v3 footer = on); seeded sentences and byte edits are validated by TLC.",
   note="Which error a non-sentence gets is not part of the statement: any refusal matches. Surrounding whitespace is excluded here (C20).",
   tech="TLA+ spec (TzString) + TLC model checking + vectors replayed + TLC trace validation"),
 "C08": dict(cat="model_checking", ref="§C08",
   text="TzFile.tla contains a byte-exact encoder and a total decoder; TLC checks Decode(Encode(z)) = z over small zones in v1/v2/v3 (ignored 32-bit block holding a different zone, shared-suffix and empty designations, indicator vectors, plain/extended footers) and decodes every truncation and single-byte corruption of a share of them; all are replayed. Real tzdata 2025b files (posix and right/) are decoded by the TLA+ decoder inside TLC and compared field by field with the crate's zone, as are single-field corruptions of real files and synthesised well-formed files of the shapes the corpus lacks (designation tables beyond 256 bytes, suffix designations, up to 200 types, 32-bit blocks of v2+ files that are not valid zones of their own, all indicator combinations, leap tables).",
   note="Quick: 60 corpus files (24 fixed interesting ones + seeded sample); thorough: all 894. Files whose two headers disagree on the version are left open. Error kinds are not compared.",
   tech="TLA+ spec (TzFile encoder/decoder) + TLC model checking + vectors replayed + TLC trace validation of real files"),
 "C20": dict(cat="model_checking", ref="§C20",
   text="Resolution is specified as a plan (ordered read requests) and an outcome; TLC checks the plan laws over all small configurations (16 values x directory lists x every absent/valid/malformed/unreadable assignment, with decoy files at every path a wrong reading would open) and each configuration is executed through TimeZoneSettings::new(dirs, recording_read_fn); the recorded request sequence, the outcome kind (zone / I/O error / decoding error) and the zone are validated by TLC, also on seeded larger configurations, on values padded with non-ASCII white space, and after earlier resolutions on the same settings value (the judged call must not depend on them).",
   note="Non-UNIX cfg branches are not built here.",
   tech="TLA+ spec (Resolve) + TLC model checking + TLC trace validation"),
 "C10": dict(cat="other", ref="§C10",
   text="Differential conformance of three implementations to one specification: glibc (time.tzset/localtime with TZ=:/file; right/ files at the leap count) and CPython zoneinfo observations of the vendored tzdata 2025b files are logged next to the crate's own lookups and searches, and TLC validates every observation of every implementation against TypeAt / ValidInstants of the zone decoded from the file (transitions -1/0/+1, seeded instants 1900-2500, footer-governed years and the footer rule's own transitions to the second; mktime: the instants each reference implies must equal the specification's set, searched through the allocating and the buffer-based form on a reused buffer). POSIX TZ strings are checked against glibc's TZ parser the same way, incl. the rule's transitions to the second.",
   note="Quick: 48 files; thorough: all 894. Instants at or after the last transition of a zone with an empty footer are outside the comparison (C03 defines that outcome). zoneinfo is limited to years 1..9999 and has no DST flag. glibc evaluates a rule for the calendar year of the instant only; its changes within 8 days of a New Year are not used to aim exact-second probes.",
   tech="TLA+ trace validation of tz-rs, glibc and CPython zoneinfo observations against the same spec"),
 "C15": dict(cat="other", ref="§C15",
   text="Threads.tla: TLC explores every interleaving of 3 threads x 2-3 calls of the faithful library (responses are functions of arguments and immutable shared zones; no action touches a shared cell) and is required to find the torn read when a shared cache is added. The 'no cell' premise is bound to the code by a token-level scan of src/ and Cargo.toml whose facts TLC judges against the allowed set (SystemTime::now in utils/system_time.rs, std::fs as the default read function), compile-time auto-trait assertions for 19 public types, the deterministic workload on 2..64 threads sharing the same zones (each thread's result must equal the sequential, TLC-validated one) and reruns of the environment-facing calls and in-memory resolutions with TZ/TZDIR/LC_ALL/HOME changed, from a working directory holding readable files named like the TZ values, and interleaved with failing file-system calls that leave errno set (results and error texts must be identical).",
   note="Interleavings are exhaustive in the model and sampled in the real code; the scan is syntactic (state hidden behind a macro the scan does not list would be missed).",
   tech="TLA+ model of concurrent clients (TLC) + static footprint facts and threaded traces validated by TLC"),
 "C19": dict(cat="exploration", ref="§C19",
   text="The harness is built three times against tz-rs with features {}, {alloc}, {alloc,std} (a configuration that does not build is the violation); the same deterministic workload restricted to the allocation-free API (constructors, gmtime/timegm, nanoseconds, rendering, rules, zones incl. real tzdata zones passed as constructor arguments, lookups, buffer-based searches) must give byte-identical recordings, and the no-alloc recording is validated event by event by TLC against the specification.",
   note="Configurations x the deterministic corpus, no more.",
   tech="three feature builds + identical recordings + TLC trace validation"),
 "C07": dict(cat="exploration", ref="§C07",
   text="Hostile inputs generated from the specification's structure (every truncation and single-byte corruption of TLA+-encoded files; header counts up to 2^32-1; extreme 64-bit times; mutations of real tzdata files; random and grammar-shaped byte strings incl. non-UTF-8; zones, rules, lookups, searches, nanosecond counts, projections, renderings at i64/i32/i128 extremes) run under catch_unwind in a build with overflow checks and debug assertions and in a release build, with peak allocation of the crate call measured, the process watched for aborts and hangs, the two profiles compared, and every outcome validated by TLC as one the specification admits.",
   note="Exploration guided by the spec's structure, not exhaustive and without coverage feedback. 64-bit usize only.",
   tech="spec-guided hostile input generation + panic/abort/allocation monitors + TLC trace validation"),
}

NOT_YET = "check not built yet in this round (planned in DESIGN.md §3); not claimed until it exists and is green"

def main():
    checks = []
    for pid in ALL:
        if pid not in CLAIMED:
            continue
        c = CLAIMED[pid]
        checks.append(dict(
            property_id=pid,
            quick_cmd=f"bin/check {pid} --tier quick",
            thorough_cmd=f"bin/check {pid} --tier thorough",
            evidence_file=f"/verif/evidence/{pid}.json",
            replay_cmd_template="bin/check replay {path}",
            engine="tla-trace",
            level_claimed=dict(category=c["cat"], text=c["text"], design_ref="DESIGN.md " + c["ref"]),
            level_note=c["note"],
            technique=c["tech"],
        ))
    m = dict(
        version=1,
        setup_cmd="bin/check setup",
        hooks=dict(guard="tz_rs_verif", enable="none needed: no hook commits; the harness observes tz-rs through its public API only",
                   baseline_off_cmd="cd /repo && cargo test --workspace --no-fail-fast --offline", source_commits=[], add_only=True),
        engines=[dict(name="tla-trace", path="/verif/bin/check", serves_properties=sorted(CLAIMED),
                      kind_free_text="explicit TLA+ specification (spec/*.tla) checked with TLC; bound to the crate by TLC-generated vectors replayed through a Rust harness and by TLC validation of traces recorded from the crate")],
        checks=checks,
        notes="See DESIGN.md. Exit codes: 0 held, 1 VIOLATION, 2 tool error.",
        not_applicable=[dict(property_id=p, reason=NOT_YET) for p in ALL if p not in CLAIMED],
    )
    json.dump(m, open(os.path.join(VERIF, "MANIFEST.json"), "w"), indent=1)

if __name__ == "__main__":
    main()
