"""Generates MANIFEST.json from the table below (single source of truth for what is claimed)."""
import json, os
VERIF = os.path.dirname(os.path.dirname(os.path.abspath(__file__)))
ALL = [f"C{i:02d}" for i in range(1, 21)]

CLAIMED = {
 "C01": dict(cat="model_checking", ref="§C01",
   text="TLC model-checks the declarative calendar (axiomatic successor-day walk over the 400-year cycle vs the arithmetic definitions, range constants, wide conversions) and emits gmtime vectors that are replayed into the crate; seeded instants over the whole i64 range are executed and the recorded trace is validated event by event by TLC against the same specification (all fields, week day, year day, refusals, plus the date-time invariant).",
   note="Trusted: TLC/SANY/CommunityModules, the TLA+ calendar axioms, harness limb/byte formatting. Quick tier walks a seeded sample of 40 of the 400 years and a third of their days; thorough walks all. Conformance is exhaustive only on the emitted vectors, sampled beyond.",
   tech="TLA+ spec (Cal/DateTime) + TLC model checking + TLC-generated vectors replayed + TLC trace validation"),
 "C02": dict(cat="model_checking", ref="§C02",
   text="Same calendar model: TLC checks timegm = inverse of gmtime on every walked day, second 60 = next minute, strict monotonicity, refusal of the day after each month end; emits timegm vectors (valid and refused) replayed into UtcDateTime::new and DateTime::new; seeded field tuples (valid and invalid, all u8 corners, i32 extremes) and ordered pairs are trace-validated by TLC (verdict, error kind, unix time, derived order = order of instants for seconds < 60).",
   note="Trusted as C01. Error kinds with several simultaneous defects are judged against the set of violated clauses.",
   tech="TLA+ spec (Cal/DateTime) + TLC model checking + vectors replayed + TLC trace validation"),
 "C16": dict(cat="model_checking", ref="§C16",
   text="TLC checks the split/join laws (floor, 0<=ns<1e9, recombination, monotone steps) on wide integers within R of 17 anchors (multiples of 1e9, i64 and i128 ends, range ends) and emits vectors for the three from_total_nanoseconds constructors; seeded i128 counts are trace-validated.",
   note="Trusted: Wide.tla (itself model-checked against TLC's native integers by MC_Wide), TLC, harness formatting.",
   tech="TLA+ spec (Wide/DateTime) + TLC model checking + vectors replayed + TLC trace validation"),
}

NOT_YET = "check not built yet in this round (planned in DESIGN.md §3); not claimed until it exists and is green"

def main():
    checks = []
    for pid in ALL:
        if pid not in CLAIMED:
            continue
        c = CLAIMED[pid]
        checks.append(dict(
            property_id=pid,
            quick_cmd=f"bin/check {pid} --tier quick",
            thorough_cmd=f"bin/check {pid} --tier thorough",
            evidence_file=f"/verif/evidence/{pid}.json",
            replay_cmd_template="bin/check replay {path}",
            engine="tla-trace",
            level_claimed=dict(category=c["cat"], text=c["text"], design_ref="DESIGN.md " + c["ref"]),
            level_note=c["note"],
            technique=c["tech"],
        ))
    m = dict(
        version=1,
        setup_cmd="bin/check setup",
        hooks=dict(guard="tz_rs_verif", enable="none needed: no hook commits; the harness observes tz-rs through its public API only",
                   baseline_off_cmd="cd /repo && cargo test --workspace --no-fail-fast --offline", source_commits=[], add_only=True),
        engines=[dict(name="tla-trace", path="/verif/bin/check", serves_properties=sorted(CLAIMED),
                      kind_free_text="explicit TLA+ specification (spec/*.tla) checked with TLC; bound to the crate by TLC-generated vectors replayed through a Rust harness and by TLC validation of traces recorded from the crate")],
        checks=checks,
        notes="See DESIGN.md. Exit codes: 0 held, 1 VIOLATION, 2 tool error.",
        not_applicable=[dict(property_id=p, reason=NOT_YET) for p in ALL if p not in CLAIMED],
    )
    json.dump(m, open(os.path.join(VERIF, "MANIFEST.json"), "w"), indent=1)

if __name__ == "__main__":
    main()
