"""Argument generators for the impl -> spec direction. Generators only choose inputs; they never judge a result."""
import random
from common import W, B

MINT = -67768100567971200
MAXT = 67767976233532799
I64MIN, I64MAX = -2**63, 2**63 - 1
I32MIN, I32MAX = -2**31, 2**31 - 1
DAY = 86400
CYCLE_S = 146097 * DAY


def clamp64(v):
    return max(I64MIN, min(I64MAX, v))


def days_from_civil(y, m, d):
    # input selection only (Howard Hinnant's algorithm); never used to judge a result
    y -= m <= 2
    era = (y if y >= 0 else y - 399) // 400
    yoe = y - era * 400
    doy = (153 * (m + (-3 if m > 2 else 9)) + 2) // 5 + d - 1
    doe = yoe * 365 + yoe // 4 - yoe // 100 + doy
    return era * 146097 + doe - 719468


def interesting_instant(rng):
    k = rng.random()
    if k < 0.30:
        return rng.randint(MINT, MAXT)
    if k < 0.40:
        return rng.choice([MINT, MAXT]) + rng.randint(-2 * DAY, 2 * DAY)
    if k < 0.45:
        return clamp64(rng.choice([I64MIN, I64MAX, MINT - 1, MAXT + 1, MINT - DAY, 0, -1]) + rng.choice([0, 0, 1, -1]))
    if k < 0.70:
        # around a year / century / cycle boundary of a random year
        y = rng.choice([rng.randint(I32MIN, I32MAX), rng.randint(-500, 3000), rng.choice([1600, 1700, 1900, 1970, 2000, 2100, 2400, 0, -1, -400, 4])])
        m, d = rng.choice([(1, 1), (3, 1), (2, 28), (2, 29), (12, 31), (1, 31), (4, 30), (8, 31), (7, 1)])
        if (m, d) == (2, 29):
            m, d = 3, 1
            off = -DAY
        else:
            off = 0
        t = days_from_civil(y, m, d) * DAY + off + rng.choice([-3, -2, -1, 0, 1, 2, 3, DAY - 1, DAY, 43200])
        return max(MINT - 5, min(MAXT + 5, t))
    if k < 0.85:
        # negative remainders
        q = rng.randint(MINT // DAY, MAXT // DAY)
        return q * DAY + rng.choice([-1, -86399, 0, 1, 86399])
    return rng.randint(-2**40, 2**40)


def gen_gmtime(rng, n):
    for _ in range(n):
        t = interesting_instant(rng)
        yield {"op": "gmtime", "a": {"t": W(t), "ns": rng.choice([0, 1, 999999999, 1000000000, 2147483647, rng.randint(0, 999999999)]),
                                    "via": rng.choice(["utc", "dt"])}}
        if rng.random() < 0.08:
            # the same instant given as a total count of nanoseconds (UtcDateTime / DateTime::from_total_nanoseconds*)
            ns = rng.choice([0, 1, 999999999, rng.randint(0, 999999999)])
            yield {"op": "fromnanos", "a": {"N": W(t * 10**9 + ns), "via": rng.choice(["utc", "local"]), "type": {"off": 0, "dst": 0, "des": []}}}
    for edge in (MINT, MAXT):
        for d in (-1, 0, 1):
            for ns in (0, 1, 999999999):
                for via in ("utc", "local"):
                    yield {"op": "fromnanos", "a": {"N": W((edge + d) * 10**9 + ns), "via": via, "type": {"off": 0, "dst": 0, "des": []}}}


def rand_fields(rng, valid_bias=0.7):
    y = rng.choice([rng.randint(I32MIN, I32MAX), rng.randint(1500, 2500), rng.randint(-5, 5), I32MAX, I32MIN, I32MAX - 1, I32MIN + 1,
                    rng.choice([1600, 1700, 1900, 1968, 1969, 1970, 1971, 1972, 2000, 2100, 2400])])
    if rng.random() < valid_bias:
        mo = rng.randint(1, 12)
        d = rng.choice([1, 28, 29, 30, 31, rng.randint(1, 28)])
        h, mi, s = rng.choice([0, 23, rng.randint(0, 23)]), rng.choice([0, 59, rng.randint(0, 59)]), rng.choice([0, 59, 60, rng.randint(0, 59)])
        ns = rng.choice([0, 999999999, rng.randint(0, 999999999)])
    elif rng.random() < 0.7:
        # exactly one defect in otherwise valid fields
        f = rand_fields(rng, 1.0)
        key = rng.choice(["mo", "d", "d", "h", "mi", "s", "ns"])
        f[key] = {"mo": rng.choice([0, 13, 255]), "d": rng.choice([0, 32, 255, 31, 30, 29]), "h": rng.choice([24, 255]), "mi": rng.choice([60, 255]),
                  "s": rng.choice([61, 255]), "ns": rng.choice([1000000000, 2147483647])}[key]
        return f
    else:
        mo = rng.choice([0, 13, 255, rng.randint(0, 14)])
        d = rng.choice([0, 32, 255, rng.randint(0, 33)])
        h, mi, s = rng.choice([24, 255, rng.randint(0, 25)]), rng.choice([60, 255, rng.randint(0, 61)]), rng.choice([61, 255, rng.randint(0, 62)])
        ns = rng.choice([0, 999999999, 1000000000, 2147483647])
    return {"y": y, "mo": mo, "d": d, "h": h, "mi": mi, "s": s, "ns": ns}


def gen_timegm(rng, n):
    for _ in range(n):
        f = rand_fields(rng)
        f["via"] = rng.choice(["utc", "dt"])
        yield {"op": "timegm", "a": f}
    # second 60 anywhere on the last / first days of the extreme years: only i32::MAX-12-31T23:59:60 is outside the range
    for y in (I32MAX, I32MAX - 1, I32MIN):
        for _ in range(6):
            for via in ("utc", "dt"):
                yield {"op": "timegm", "a": {"y": y, "mo": rng.choice([12, 12, 1]), "d": rng.choice([31, 31, 1]), "h": rng.randint(0, 23), "mi": rng.randint(0, 59),
                                             "s": 60, "ns": rng.choice([0, 999999999]), "via": via}}
    # the documented corner: i32::MAX-12-31T23:59:60 and its neighbours
    for y in (I32MAX, I32MAX - 1, I32MIN):
        for s in (59, 60):
            for via in ("utc", "dt"):
                yield {"op": "timegm", "a": {"y": y, "mo": 12, "d": 31, "h": 23, "mi": 59, "s": s, "ns": 0, "via": via}}
                yield {"op": "timegm", "a": {"y": y, "mo": 1, "d": 1, "h": 0, "mi": 0, "s": 0, "ns": 0, "via": via}}


def gen_utccmp(rng, n):
    for _ in range(n):
        a = rand_fields(rng, 1.0)
        k = rng.random()
        if k < 0.5:
            b = dict(a)
            key = rng.choice(["y", "mo", "d", "h", "mi", "s", "ns"])
            b[key] = rand_fields(rng, 1.0)[key]
        elif k < 0.75:
            # same year, different date or time, nanoseconds ordered the other way round
            b = dict(a)
            key = rng.choice(["mo", "d", "h", "mi", "s"])
            b[key] = rand_fields(rng, 1.0)[key]
            if b["d"] > 28:
                b["d"] = a["d"] = 28
            a["ns"], b["ns"] = rng.choice([(5, 3), (3, 5), (999999999, 0), (0, 999999999)])
        else:
            b = rand_fields(rng, 1.0)
        yield {"op": "utccmp", "a": {"a": a, "b": b}}


def gen_nanos(rng, n):
    G = 10**9
    anchors = [0, G, -G, 2 * G, -2 * G, 3 * G, -3 * G, I64MIN * G, I64MAX * G, (I64MAX + 1) * G, (I64MIN - 1) * G, MINT * G, MAXT * G + G - 1,
               -2**127, 2**127 - 1,
               2**63, -2**63, 2**64, -2**64, 2**31 * G, -2**31 * G, 2**32 * G, 2**53, -2**53]       # word-size ends of the COUNT (not of the seconds)
    for _ in range(n):
        k = rng.random()
        if k < 0.35:
            N = rng.choice(anchors) + rng.randint(-2500, 2500)
        elif k < 0.6:
            N = rng.randint(MINT * G, MAXT * G + G - 1)
        elif k < 0.8:
            mag = 10 ** rng.uniform(0, 38.2)
            N = int(mag) * rng.choice([1, -1])
        else:
            N = rng.randint(-5, 5) * G + rng.choice([-1, 0, 1, G - 1, G // 2])
        N = max(-2**127, min(2**127 - 1, N))
        via = rng.choice(["utc", "local", "local"])
        off = rng.choice([0, 1, -1, 3600, -3600, I32MAX, I32MIN + 1, rng.randint(I32MIN + 1, I32MAX)])
        yield {"op": "fromnanos", "a": {"N": W(N), "via": via, "type": {"off": off, "dst": rng.randint(0, 1), "des": rng.choice([[], B("ABC"), B("+0330")])}}}


# =============================================================================================
# zones

DESIGS = ["LMT", "UTC", "CET", "CEST", "EST", "EDT", "+03", "-0330", "+1245", "ABCDEFG", "a-b+c", "GMT"]


def rand_type(rng, offs="small"):
    if offs != "full" and rng.random() < 0.05:
        # the placeholder of tzdata for "local time unspecified": an ordinary type like any other (offset 0, standard, "-00")
        return {"off": 0, "dst": 0, "des": B("-00")}
    if offs == "small":
        off = rng.choice([0, 3600, -3600, 7200, -18000, 19800, 45900, -1, 1, 59, -59, 60, 86399, -86399, rng.randint(-50000, 50000)])
    elif offs == "tiny":
        off = rng.randint(-3, 3)
    else:
        off = rng.choice([I32MAX, I32MIN + 1, rng.randint(I32MIN + 1, I32MAX), rng.randint(-10**6, 10**6)])
    return {"off": off, "dst": rng.randint(0, 1), "des": B(rng.choice(DESIGS)) if rng.random() < 0.8 else []}


def rand_leaps(rng, n, start=None):
    """A valid leap table with n records."""
    out = []
    r = start if start is not None else rng.choice([0, 78796800, rng.randint(0, 2 * 10**9)])
    c = 0
    steps = [1, 1, 1, -1] if rng.random() < 0.65 else [-1, -1, -1, 1]          # a third of the tables run mostly negative
    for i in range(n):
        c += rng.choice(steps)
        out.append([r, c])
        r += rng.choice([2419199, 2419200, 2419201, 15724800, 31536001, rng.randint(2419199, 10**8)])
    return out


REAL_LEAPS = [78796800, 94694401, 126230402, 157766403, 189302404, 220924805, 252460806, 283996807, 315532808, 362793609, 394329610, 425865611,
              489024012, 567993613, 631152014, 662688015, 709948816, 741484817, 773020818, 820454419, 867715220, 915148821, 1136073622, 1230768023,
              1341100824, 1435708825, 1483228826]


def leap_table(rng):
    k = rng.random()
    if k < 0.45:
        return []
    if k < 0.55:
        return [[r, i + 1] for i, r in enumerate(REAL_LEAPS)]
    return rand_leaps(rng, rng.randint(1, 6))


def gen_table_zone(rng, nmax=12, offs=None, base=None, leaps=None, rule="auto"):
    """A valid zone with a transition table, optional leap table and optional *fixed* trailing rule."""
    offs = offs or rng.choice(["small", "small", "small", "tiny", "wide"])
    ntypes = rng.randint(1, 5)
    ty = [rand_type(rng, offs) for _ in range(ntypes)]
    n = rng.randint(0, nmax)
    lp = leap_table(rng) if leaps is None else leaps
    t = base if base is not None else rng.choice([0, rng.randint(-2**33, 2**33), rng.randint(-10**6, 2 * 10**9), rng.randint(2**31, 2**32), -rng.randint(2**31, 2**33)])
    if lp and rng.random() < 0.7:
        t = rng.choice(lp)[0] + rng.randint(-3, 3)
    tr = []
    for i in range(n):
        tr.append([t, rng.randrange(ntypes)])
        step = rng.choice([1, 2, 3, 60, 1800, 3599, 3600, 3601, 86400, rng.randint(1, 7200), rng.randint(1, 10**8)])
        if offs == "wide" and rng.random() < 0.5:
            step = rng.randint(1, 2**33)
        if offs == "tiny":
            step = rng.randint(1, 3)
        if lp and rng.random() < 0.3:
            cand = rng.choice(lp)[0] + rng.randint(-2, 2)
            if cand > t:
                step = cand - t
        t += step
    if rng.random() < 0.35:
        # shapes that real data rarely has but every statement covers: duplicate types, types differing only in the DST flag or
        # only in the designation, a first transition to type 0, a last transition that repeats the previous type, one- and
        # two-entry tables
        k = rng.randrange(6)
        if k == 0 and ty:
            ty.append(dict(rng.choice(ty)))                                     # exact duplicate, both indices in use
            for x in tr[::2]:
                x[1] = len(ty) - 1
        elif k == 1 and ty:
            twin = dict(rng.choice(ty)); twin["dst"] = 1 - twin["dst"]; ty.append(twin)
            for x in tr[1::2]:
                x[1] = len(ty) - 1
        elif k == 2 and ty:
            twin = dict(rng.choice(ty)); twin["des"] = B("XYZ") if twin["des"] != B("XYZ") else B("XYW"); ty.append(twin)
            for x in tr[1::2]:
                x[1] = len(ty) - 1
        elif k == 3 and tr:
            tr[0][1] = 0
        elif k == 4 and len(tr) >= 2:
            tr[-1][1] = tr[-2][1]
        elif k == 5:
            tr = tr[: rng.choice([1, 2])]
    if rule == "auto":
        rule = rng.choice(["none", "none", "fixed"])
    if rule == "fixed":
        rl = {"k": "fixed", "t": dict(ty[tr[-1][1]]) if tr else rand_type(rng, offs)}
    else:
        rl = {"k": "none"}
    return {"tr": tr, "ty": ty, "lp": lp, "rule": rl}


def zone_event(z, group=True):
    e = {"op": "zone", "a": {"tr": [[W(t), ix] for t, ix in z["tr"]], "ty": z["ty"], "lp": [[W(r), c] for r, c in z["lp"]], "rule": z["rule"], "via": "owned"}}
    if group:
        e["g"] = 1
    return e


def civil_from_days(z):
    z += 719468
    era = (z if z >= 0 else z - 146096) // 146097
    doe = z - era * 146097
    yoe = (doe - doe // 1460 + doe // 36524 - doe // 146096) // 365
    y = yoe + era * 400
    doy = doe - (365 * yoe + yoe // 4 - yoe // 100)
    mp = (5 * doy + 2) // 153
    d = doy - (153 * mp + 2) // 5 + 1
    m = mp + (3 if mp < 10 else -9)
    return (y + (m <= 2), m, d)


def fields_of_local(L, ns=0, sec60=False):
    """Calendar fields showing local second count L (generator-side arithmetic: chooses what to search for)."""
    days, s = divmod(L, 86400)
    y, m, d = civil_from_days(days)
    f = {"y": y, "mo": m, "d": d, "h": s // 3600, "mi": (s % 3600) // 60, "s": s % 60, "ns": ns}
    return f


def probe_instants(rng, z):
    """Instants worth looking up in a zone: every transition -1/0/+1 (in UTC and in leap count), both ends, leap records."""
    pts = set()
    corr_all = [c for _, c in z["lp"]] + [0]
    for t, _ in z["tr"]:
        for c in set(corr_all[-3:] + [0]) if len(corr_all) > 3 else set(corr_all):
            for dlt in (-2, -1, 0, 1, 2):
                pts.add(t - c + dlt)
    for r, c in z["lp"]:
        for dlt in (-2, -1, 0, 1, 2):
            pts.add(r + dlt)
            pts.add(r - c + dlt)
    if z["tr"]:
        pts.add(z["tr"][0][0] - 10**6)
        pts.add(z["tr"][-1][0] + 10**6)
    pts.add(rng.randint(-2**40, 2**40))
    return [p for p in pts if I64MIN <= p <= I64MAX]


def gen_zone_session(rng, z, nprobe=40, do_find=True, do_findn=False, lookups=True):
    """One group: construct the zone, then look up / search around its interesting points."""
    yield zone_event(z)
    pts = probe_instants(rng, z)
    rng.shuffle(pts)
    offs = sorted({t["off"] for t in z["ty"]} | ({z["rule"]["t"]["off"]} if z["rule"]["k"] == "fixed" else set())
                  | ({z["rule"]["std"]["off"], z["rule"]["dst"]["off"]} if z["rule"]["k"] == "alt" else set()))
    for u in pts[:nprobe]:
        if lookups:
            yield {"op": "lookup", "a": {"u": W(u), "via": rng.choice(["ref", "owned"])}}
            if rng.random() < 0.3:
                yield {"op": "localtime", "a": {"u": W(u), "ns": rng.choice([0, 999999999])}}
            if do_find and rng.random() < 0.25:
                yield {"op": "roundtrip", "a": {"u": W(u), "ns": rng.choice([0, 7])}}
            if rng.random() < 0.12 and MINT + 2**32 < u < MAXT - 2**32:
                # a UTC date-time built from fields, with second 60 where the instant is the first second of a minute, projected
                # into the zone: the result is the zone's reading of the instant the fields denote (never a copy of the fields)
                f = fields_of_local(u if u % 60 else u - 1, rng.choice([0, 3]))
                if u % 60 == 0:
                    f["s"] = 60
                f["via"] = "utcnew"
                yield {"op": "project", "a": f}
            if rng.random() < 0.3 and abs(u) < 2**62:
                yield {"op": "fromnanos", "a": {"N": W(u * 10**9 + rng.choice([0, 1, 500000000, 999999999])), "via": "zone", "type": {"off": 0, "dst": 0, "des": []}}}
        if do_find and MINT + 2**32 < u < MAXT - 2**32:
            # local times within one offset of the point: the four boundary seconds of a gap/fold at u for each offset pair
            o = rng.choice(offs)
            L = u + o + rng.choice([-1, 0, 0, 1])
            f = fields_of_local(L, rng.choice([0, 5]))
            if rng.random() < 0.03 and f["s"] == 59:
                f["s"] = 60
            if rng.random() < 0.04:
                # one field pushed just out of its range: the search must refuse it exactly like the constructors do
                fld, bad = rng.choice([("ns", 10**9), ("ns", 2**31 - 1), ("s", 61), ("mi", 60), ("h", 24), ("mo", 13), ("mo", 0), ("d", 0), ("d", 32)])
                f[fld] = bad
            if do_findn and rng.random() < 0.5:
                f["n"] = rng.randint(0, 4)
                yield {"op": "findn", "a": f}
            else:
                yield {"op": "find", "a": f}


def gen_project_sec60(rng, n):
    """UTC date-times built from fields with second 60 (the instant is second 0 of the next minute), projected into zones whose
    type in force has offset 0 and zones where it has not: the result is always the zone's reading of the instant"""
    base = rng.randint(10**8, 2 * 10**9)
    base -= base % 60
    D = 9999960                                     # a whole number of minutes
    gmt = {"off": 0, "dst": 0, "des": B("GMT")}
    bst = {"off": 3600, "dst": 1, "des": B("BST")}
    lmt = {"off": -75, "dst": 0, "des": B("LMT")}
    zones = [{"tr": [[base - D, 1], [base, 2], [base + D, 1]], "ty": [lmt, gmt, bst], "lp": [], "rule": {"k": "fixed", "t": dict(gmt)}},
             {"tr": [], "ty": [gmt], "lp": [], "rule": {"k": "none"}},
             {"tr": [], "ty": [gmt, bst], "lp": [], "rule": corpus_rule(rng.randrange(1000))},
             {"tr": [[base, 0]], "ty": [{"off": 0, "dst": 1, "des": B("ZZZ")}], "lp": [], "rule": {"k": "none"}}]
    for z in zones:
        yield zone_event(z)
        for _ in range(max(2, n // len(zones))):
            u = base + rng.choice([-D - 60, -D, -120, -60, 0, 60, 600, D - 60, D, D + 3600, 60 * rng.randrange(-300000, 300000)])
            f = fields_of_local(u - 1, rng.choice([0, 999999999]))
            assert f["s"] == 59
            f["s"] = 60
            f["via"] = "utcnew"
            yield {"op": "project", "a": f}
            yield {"op": "project", "a": {"t": W(u), "ns": f["ns"], "type": dict(gmt), "via": rng.choice(["utc", "dt"])}}


# ---- C03: table-length sweep (every parity of the binary search) ----
def gen_c03_sweep(rng, nmax):
    for n in range(0, nmax + 1):
        ntypes = rng.randint(1, 4)
        ty = [rand_type(rng) for _ in range(ntypes)]
        t = rng.choice([-10**9, 0, rng.randint(-2**50, 2**50)])
        tr = []
        for i in range(n):
            tr.append([t, rng.randrange(ntypes)])
            t += rng.choice([1, 2, rng.randint(1, 10**6)])
        z = {"tr": tr, "ty": ty, "lp": [], "rule": rng.choice([{"k": "none"}, {"k": "fixed", "t": dict(ty[tr[-1][1]]) if tr else ty[0]}])}
        yield zone_event(z)
        pts = set()
        for tt, _ in tr:
            pts.update([tt - 1, tt, tt + 1])
        if tr:
            pts.update([tr[0][0] - 1000, tr[-1][0] + 1000])
        pts.add(0)
        pts = sorted(pts)
        if len(pts) > 60:
            pts = rng.sample(pts, 60)
        for u in pts:
            yield {"op": "lookup", "a": {"u": W(u), "via": rng.choice(["ref", "owned"])}}
        for u in rng.sample(pts, min(5, len(pts))):
            yield {"op": "localtime", "a": {"u": W(u), "ns": 1}}


def gen_c03_extreme(rng, n):
    """transition times anywhere in i64, including the ends and adjacent values"""
    for _ in range(n):
        ntypes = rng.randint(1, 3)
        ty = [rand_type(rng, rng.choice(["small", "wide"])) for _ in range(ntypes)]
        pool = [I64MIN, I64MIN + 1, I64MIN + 2, I64MAX - 2, I64MAX - 1, I64MAX, MINT - 1, MINT, MINT + 1, MAXT - 1, MAXT, MAXT + 1, -1, 0, 1]
        pool += [rng.randint(I64MIN, I64MAX) for _ in range(6)]
        times = sorted(set(rng.sample(pool, rng.randint(1, 8))))
        tr = [[t, rng.randrange(ntypes)] for t in times]
        z = {"tr": tr, "ty": ty, "lp": [], "rule": {"k": "none"}}
        yield zone_event(z)
        for t in times:
            for u in (t - 1, t, t + 1):
                if I64MIN <= u <= I64MAX:
                    yield {"op": "lookup", "a": {"u": W(u), "via": "ref"}}
                    if rng.random() < 0.3:
                        yield {"op": "localtime", "a": {"u": W(u), "ns": 0}}


# ---- C12 ----
def gen_leap_only_zones(rng, n):
    """no transition table, a leap table (and sometimes a fixed rule): the instant is never converted, so every i64 instant
    must give the zone's type - the top of the range included"""
    for _ in range(n):
        ty = [rand_type(rng)]
        lp = rand_leaps(rng, rng.randint(1, 27))
        rule = {"k": "none"} if rng.random() < 0.6 else {"k": "fixed", "t": dict(ty[0])}
        yield zone_event({"tr": [], "ty": ty, "lp": [list(x) for x in lp], "rule": rule})
        c = abs(lp[-1][1]) + 2
        for u in [I64MAX - d for d in range(0, c)] + [I64MIN + d for d in range(0, c)] + [0, -1, lp[0][0], lp[-1][0]]:
            yield {"op": "lookup", "a": {"u": W(u), "via": rng.choice(["ref", "owned"])}}


def gen_signed_leap_run_zones(rng, n):
    """leap tables that run negative (or positive) to the end, one transition at the last record's count -2..+2: lookups at every
    UTC value around it (a fast path that compares on the wrong scale is off by the accumulated correction there)"""
    for _ in range(n):
        sign = rng.choice([-1, -1, 1])
        k = rng.randint(1, 5)
        r0 = rng.randint(0, 10**9)
        lp = [[r0 + i * rng.choice([2419199, 2419200, 10**7]), sign * (i + 1)] for i in range(k)]
        if rng.random() < 0.3:
            lp.append([lp[-1][0] + 2419199, lp[-1][1] - sign])              # one step back at the end
        ty = [rand_type(rng), rand_type(rng)]
        for d in (-2, -1, 0, 1, 2):
            T = lp[-1][0] + d
            z = {"tr": [[T - 10**6, 0], [T, 1]], "ty": ty, "lp": lp, "rule": rng.choice([{"k": "none"}, {"k": "fixed", "t": dict(ty[1])}])}
            yield zone_event(z)
            c = abs(lp[-1][1]) + 2
            for u in range(T - lp[-1][1] - c, T - lp[-1][1] + c + 1):
                yield {"op": "lookup", "a": {"u": W(u), "via": "ref"}}


def gen_c12(rng, nzones):
    for i in range(nzones):
        k = rng.random()
        if k < 0.25:
            lp = [[r, j + 1] for j, r in enumerate(REAL_LEAPS)]
        else:
            lp = rand_leaps(rng, rng.randint(1, 40 if rng.random() < 0.2 else 8), start=rng.choice([0, 5, 78796800, rng.randint(0, 10**9)]))
        ntypes = rng.randint(2, 4)
        ty = [rand_type(rng) for _ in range(ntypes)]
        # probe zone: transitions at, just before and just after leap records
        cand = set()
        for r, c in rng.sample(lp, min(len(lp), 6)):
            cand.add(r + rng.choice([-2, -1, 0, 0, 1, 2]))
        cand.add(lp[-1][0] + rng.choice([-1, 0, 1, 1, 2]))
        times = sorted(cand)
        tr = [[t, (j + 1) % ntypes] for j, t in enumerate(times)]
        rule = rng.choice([{"k": "none"}, {"k": "fixed", "t": dict(ty[tr[-1][1]])}])
        z = {"tr": tr, "ty": ty, "lp": lp, "rule": rule}
        yield from gen_zone_session(rng, z, nprobe=60, do_find=True)
    yield from gen_signed_leap_run_zones(rng, max(4, nzones // 20))
    yield from gen_c12_second60_at_inserted(rng, max(12, nzones // 6))
    # right/-style zones with a daylight-saving footer: the table is on the leap scale, the rule's instants are UTC
    for i in range(max(8, nzones // 8)):
        r = corpus_rule(i) if i % 2 == 0 else rand_rule(rng)
        yield from gen_rule_zone_session(rng, r, with_table=True, do_find=True, do_findn=(i % 3 == 0), nprobe=40, leaps=True)


def gen_c12_second60_at_inserted(rng, n):
    """A search whose fields carry second 60 and denote the very UTC value an inserted leap second shares with the second after it
    (minute-aligned on the local clock), with a transition recorded at the record's count R -1 / +0 / +1 / +2: second 60 is the first
    second of the next minute, so both spellings must find the same instants on both sides of the transition."""
    for _ in range(n):
        k = rng.randint(1, 4)
        lp = rand_leaps(rng, k, start=rng.choice([0, 78796800, rng.randint(0, 10**9)]))
        i = rng.randrange(k)
        cprev = lp[i - 1][1] if i > 0 else 0
        if lp[i][1] != cprev + 1:
            continue                                                     # only inserted seconds
        # move the whole table so that the UTC value of record i is a whole minute
        u = lp[i][0] - cprev
        shift = (-u) % 60
        lp = [[r + shift, c] for r, c in lp]
        if lp[0][0] < 0:
            continue
        R = lp[i][0]
        u = R - cprev
        offs = rng.sample([0, 3600, -3600, 7200, -18000, 19800, 60, -120], 2)
        ty = [{"off": offs[0], "dst": 0, "des": B("AAA")}, {"off": offs[1], "dst": 1, "des": B("BBB")}]
        for dT in (-1, 0, 1, 2):
            tr = [[R - rng.randint(10**5, 10**6), 1], [R + dT, 0], [R + 5 * 10**6, 1]]
            yield zone_event({"tr": tr, "ty": ty, "lp": [list(x) for x in lp], "rule": {"k": "none"}})
            for off in offs:
                for dl in (0, 60, -60):
                    f = fields_of_local(u + off + dl - 1)
                    f60 = dict(f, s=60)
                    f00 = fields_of_local(u + off + dl)
                    for ff in (f60, f00, f):
                        yield {"op": "find", "a": ff}
                    yield {"op": "findn", "a": dict(f60, n=rng.choice([1, 2, 8]))}
            for du in (-1, 0, 1):
                yield {"op": "lookup", "a": {"u": W(u + du), "via": "ref"}}


# ---- C13 ----
def gen_c13(rng, n):
    for _ in range(n):
        z = gen_table_zone(rng, nmax=8)
        k = rng.random()
        z = {kk: (list(v) if isinstance(v, list) else dict(v)) for kk, v in z.items()}
        z["tr"] = [list(t) for t in z["tr"]]
        z["lp"] = [list(t) for t in z["lp"]]
        if k < 0.15:
            pass                                    # valid
        elif k < 0.30 and z["tr"]:
            i = rng.randrange(len(z["tr"])) if rng.random() < 0.6 else len(z["tr"]) - 1
            z["tr"][i][1] = len(z["ty"]) + rng.choice([0, 0, 1, 200])
            if z["rule"]["k"] != "none" and rng.random() < 0.5:
                z["rule"] = {"k": "none"}
        elif k < 0.45 and len(z["tr"]) >= 2:
            i = rng.randrange(len(z["tr"]) - 1)
            z["tr"][i + 1][0] = z["tr"][i][0] - rng.choice([0, 0, 1, 1000])
        elif k < 0.70:
            if not z["lp"]:
                z["lp"] = rand_leaps(rng, rng.randint(1, 5))
                z["tr"] = []
                z["rule"] = {"k": "none"}
            kind = rng.randrange(6)
            lp = z["lp"]
            if kind == 0:
                lp[0][1] = rng.choice([0, 2, -2, I32MIN, I32MAX])
            elif kind == 1:
                shift = lp[0][0] + rng.choice([1, 1, 5])
                for rec in lp:
                    rec[0] -= shift
            elif kind == 2 and len(lp) >= 2:
                i = rng.randrange(len(lp) - 1)
                d = lp[i + 1][0] - lp[i][0]
                delta = d - rng.choice([2419198, 2419198, 2419199, 0, -5])       # 2419199 keeps it valid (exact minimum)
                for rec in lp[i + 1:]:
                    rec[0] -= delta
            elif kind == 3 and len(lp) >= 2:
                i = rng.randrange(len(lp) - 1)
                lp[i + 1][1] = lp[i][1] + rng.choice([0, 2, -2, 3])
            elif kind == 4 and rng.random() < 0.5:
                # the spacing rule at the top of the 64-bit range: the last two records end at (or just below) i64::MAX with a
                # spacing just below, at and above the minimum (a saturating sum would accept all of them)
                top = rng.choice([I64MAX, I64MAX, I64MAX - 1, I64MAX - 5])
                gap = rng.choice([0, 1, 2419198, 2419198, 2419199, 2419200, 100])
                c = lp[-2][1] if len(lp) >= 2 else 0
                lp[:] = [rec for rec in lp[:-1] if rec[0] < top - gap - 2419199]
                c = lp[-1][1] if lp else 0
                step = 1 if (c >= 0 or not lp) else -1
                lp.append([top - gap, c + step])
                lp.append([top, c + step + rng.choice([1, -1])])
                if len(lp) == 2 and lp[0][1] not in (1, -1):
                    lp[0][1] = 1; lp[1][1] = rng.choice([0, 2])
            elif kind == 4:
                lp[-1][0] = rng.choice([I64MAX, I64MAX - 1])
                if rng.random() < 0.5 and len(lp) >= 2:
                    # a later record far in the past: the difference of the two times does not fit 64 bits
                    lp[-1][0] = rng.choice([I64MIN, I64MIN + 1, I64MIN + lp[-2][0], -(2**62) * 2 + 5])
                    lp[-1][1] = lp[-2][1] + rng.choice([1, -1])
            else:
                pass
        elif k < 0.85 and z["tr"]:
            last = dict(z["ty"][z["tr"][-1][1]])
            which = rng.randrange(5)
            if which == 0:
                last["off"] += rng.choice([1, -1, 3600]) if abs(last["off"]) < 2**31 - 4000 else (-1 if last["off"] > 0 else 1)
            elif which == 1:
                last["dst"] = 1 - last["dst"]
            elif which == 2:
                if last["des"] and rng.random() < 0.7:
                    # differ in exactly one character (first, middle or last)
                    i = rng.choice([0, len(last["des"]) // 2, len(last["des"]) - 1])
                    last["des"] = list(last["des"]); last["des"][i] = ord("Q") if last["des"][i] != ord("Q") else ord("R")
                else:
                    last["des"] = B("XYZ") if last["des"] != B("XYZ") else B("XYY")
            elif which == 3:
                last["des"] = [] if last["des"] else B("UTC")
            z["rule"] = {"k": "fixed", "t": last}
        elif k < 0.92:
            z["tr"] = [[rng.choice([I64MIN, I64MIN + 1, I64MAX, I64MAX - 1]), 0]]
            z["rule"] = {"k": "fixed", "t": dict(z["ty"][0])}
            if rng.random() < 0.5:
                z["lp"] = rand_leaps(rng, 2)
        else:
            z["ty"] = []
            z["tr"] = [] if rng.random() < 0.7 else z["tr"][:1]
            z["rule"] = {"k": "none"}
        yield zone_event(z)
        if rng.random() < 0.3:
            yield {"op": "lookup", "a": {"u": W(rng.randint(-10**9, 10**9)), "via": "ref"}}
    # every byte value at the first, a middle and the last position of an otherwise valid designation: the character class exactly
    for c in range(256):
        for des in ([c, 65, 66], [65, c, 66, 67], [65, 66, 67, 68, 69, 70, c]):
            yield {"op": "type", "a": {"off": 3600, "dst": 0, "des": des, "nodes": 0, "via": "new"}}
    # local time types
    alphabet = [ord("A"), ord("z"), ord("0"), ord("9"), ord("+"), ord("-"), ord(" "), 0, 0x80, ord("_"), ord("/"), ord(":"), ord("<"),
                ord(","), ord("."), ord("*"), ord("@"), ord("["), ord("`"), ord("{"), 0x7f, 0xff]       # the neighbours of every allowed range
    for _ in range(n):
        ln = rng.randint(0, 9)
        if rng.random() < 0.6:
            des = [rng.choice(alphabet[:6]) for _ in range(ln)]
        else:
            des = [rng.choice(alphabet) for _ in range(ln)]
        yield {"op": "type", "a": {"off": rng.choice([0, I32MIN, I32MIN + 1, I32MAX, rng.randint(I32MIN, I32MAX)]), "dst": rng.randint(0, 1), "des": des,
                                  "nodes": 1 if rng.random() < 0.1 else 0, "via": rng.choice(["new", "new", "with_ut_offset"])}}


def gen_c13_long_designations():
    """designations far beyond the allowed 3..7 bytes whose length is small again modulo a word size (256 + 3 ... 256 + 7,
    65536 + 5): all made of valid characters, all to be refused for their length"""
    for ln in [8, 9, 255, 256, 257, 258, 259, 260, 261, 262, 263, 264, 512 + 3, 512 + 7, 1024 + 5, 65536 + 3, 65536 + 7]:
        yield {"op": "type", "a": {"off": 3600, "dst": 0, "des": [65 + (i % 26) for i in range(ln)], "nodes": 0, "via": "new"}}
        yield {"op": "type", "a": {"off": -1, "dst": 1, "des": [67, 69, 84] + [32] * (ln - 3), "nodes": 0, "via": "new"}}


def gen_c13_leap_rule_junction(rng, n):
    """The trailing-rule condition where the three time scales meet: the last transition sits at (or one count around) the LAST
    leap record, and the instant that count denotes is exactly (or one second around) a start / end instant of the rule. The last
    transition's type is the rule's half just after, or the other half: the definitions decide which zones exist."""
    for _ in range(n):
        r = rand_rule(rng, near=False) if rng.random() < 0.5 else corpus_rule(rng.randrange(1000))
        y = rng.randint(1975, 2090)
        kind = rng.choice(["S", "E"])
        u = rule_S(r, y) if kind == "S" else rule_E(r, y)              # the UTC instant of the rule's transition
        if u < 10**8:
            continue
        k = rng.randint(1, 6)
        neg = rng.random() < 0.35
        lp = []
        c = 0
        t0 = u - k * rng.randint(2419200, 4 * 10**7)
        for i in range(k - 1):
            c += (-1 if neg else 1) if rng.random() < 0.8 else (1 if neg else -1)
            if c == 0 and not lp:
                c = -1 if neg else 1
            lp.append([t0 + i * ((u - t0) // k), c])
        cprev = c
        clast = cprev + rng.choice([1, 1, -1])
        if not lp and clast == 0:
            clast = 1
        du = rng.choice([0, 0, 0, 1, -1])
        # the last record's own count: the inserted second shares the UTC value u + du of the second that follows it
        R = u + du + cprev
        if lp and R - lp[-1][0] < 2419199:
            continue
        lp.append([R, clast])
        for dT in (-1, 0, 1, 2):
            for half in (0, 1):
                ty = [dict(r["std"]), dict(r["dst"])]
                tr = [[R - rng.randint(10**6, 10**7), rng.randrange(2)], [R + dT, half]]
                yield zone_event({"tr": tr, "ty": ty, "lp": [list(x) for x in lp], "rule": r})
                yield {"op": "lookup", "a": {"u": W(u + rng.choice([-1, 0, 1])), "via": "ref"}}


def gen_c13_leap_defect_rule_junction(rng, n):
    """A leap table that is the zone's only defect (first correction 0 / +-2, a step of 2, records one second too close, a negative
    first time), a trailing DST rule, and a last transition ON a start / end instant of the rule (-1, 0, +1 s) with the type the rule
    prescribes there: the specific error is the leap table's - the rule clause holds under some reading of the instant."""
    for _ in range(n):
        r = rand_rule(rng, near=False) if rng.random() < 0.5 else corpus_rule(rng.randrange(1000))
        y = rng.randint(1975, 2090)
        kind = rng.choice(["S", "E"])
        u = rule_S(r, y) if kind == "S" else rule_E(r, y)
        if u < 10**8:
            continue
        defect = rng.choice(["first2", "first-2", "first0", "step2", "close", "negtime"])
        t1 = rng.randint(0, u - 4 * 10**7)
        if defect == "first2":
            lp = [[t1, 2]]
        elif defect == "first-2":
            lp = [[t1, -2]]
        elif defect == "first0":
            lp = [[t1, 0]]
        elif defect == "step2":
            lp = [[t1, 1], [t1 + 3 * 10**7, 3]]
        elif defect == "close":
            lp = [[t1, 1], [t1 + 2419198, 2]]
        else:
            lp = [[-rng.randint(1, 10**6), 1]]
        half = 1 if kind == "S" else 0                                  # the half of the rule in force from the instant on
        for dT in (-1, 0, 1, 2):
            ty = [dict(r["std"]), dict(r["dst"])]
            hh = half if dT >= 0 else 1 - half
            tr = [[u - rng.randint(10**6, 10**7), rng.randrange(2)], [u + dT, hh]]
            yield zone_event({"tr": tr, "ty": ty, "lp": [list(x) for x in lp], "rule": r})


# ---- C05 / C06 / C17 ----
def as_findn(rng, events):
    for e in events:
        if e["op"] == "find":
            a = dict(e["a"]); a["n"] = rng.choice([0, 1, 2, 8])
            yield {"op": "findn", "a": a}
        else:
            yield e


def gen_same_instant_pairs(rng, nz):
    """two successive buffer searches for the same instant spelled differently (hh:mm:60 and the next minute :00), stale buffer"""
    for _ in range(nz):
        z = gen_table_zone(rng, nmax=5, offs="small", leaps=[])
        yield zone_event(z)
        for _ in range(6):
            base = rng.randint(-10**9, 2 * 10**9) // 60 * 60
            f1 = fields_of_local(base - 1, 0); f1["s"] = 60
            f2 = fields_of_local(base, 0)
            n = rng.choice([1, 2, 3])
            for f in rng.choice([(f1, f2), (f2, f1)]):
                ff = dict(f); ff["n"] = n
                yield {"op": "findn", "a": ff}


def gen_many_types_zone(rng):
    """a table zone with 9..16 local time types, all used, distinct offsets"""
    nt = rng.randint(9, 16)
    offs = rng.sample(range(-43200, 50400, 900), nt)
    ty = [{"off": o, "dst": i % 2, "des": B(rng.choice(DESIGS))} for i, o in enumerate(offs)]
    t = rng.randint(-10**9, 10**9)
    tr = []
    order = list(range(nt)) + [rng.randrange(nt) for _ in range(6)]
    rng.shuffle(order)
    for ix in order:
        tr.append([t, ix])
        t += rng.choice([3600, 86400, 10**6, rng.randint(1800, 10**7)])
    return {"tr": tr, "ty": ty, "lp": [], "rule": rng.choice([{"k": "none"}, {"k": "fixed", "t": dict(ty[tr[-1][1]])}])}


def gen_huge_type_list_zone(rng):
    """more local time types than a TZif file can index (257..400), the table using indices beyond 255"""
    nt = rng.randint(257, 400)
    ty = [{"off": 900 * (i % 96) - 43200 + (i // 96), "dst": i % 2, "des": B(DESIGS[i % len(DESIGS)])} for i in range(nt)]
    t = rng.randint(0, 10**9)
    tr = []
    for ix in [0, 255, 256, nt - 1, rng.randrange(256, nt), 1, nt - 2]:
        tr.append([t, ix])
        t += rng.choice([3600, 86400, 10**6])
    return {"tr": tr, "ty": ty, "lp": [], "rule": rng.choice([{"k": "none"}, {"k": "fixed", "t": dict(ty[tr[-1][1]])}])}


def gen_same_rule_family(rng, do_findn=False):
    """zones that share rule days and local switch times but differ in UT offsets, searched one after the other at the same local times"""
    base = corpus_rule(rng.choice([0, 1, 2]))
    y = rng.randint(1990, 2100)
    locals_ = []
    for shift in (0, 3600, -3600, 7200):
        r = {k: (dict(v) if isinstance(v, dict) else v) for k, v in base.items()}
        r["std"]["off"] += shift; r["dst"]["off"] += shift
        z = {"tr": [], "ty": [dict(r["std"]), dict(r["dst"])], "lp": [], "rule": r}
        yield zone_event(z)
        if not locals_:
            for T, o in ((rule_S(base, y), base["std"]["off"]), (rule_E(base, y), base["dst"]["off"])):
                locals_ += [T + o + d for d in (-1800, -1, 0, 1800, 3599, 3600, 5400)]
        for L in locals_:
            f = fields_of_local(L, 0)
            if do_findn:
                f["n"] = 3
                yield {"op": "findn", "a": f}
            else:
                yield {"op": "find", "a": f}
            yield {"op": "lookup", "a": {"u": W(L - r["std"]["off"]), "via": "ref"}}


def new_year_rule(rng):
    """a rule whose transitions fall at or next to the calendar-year boundary, with ordinary day times (0..24h)"""
    so = rng.choice([0, 3600, -18000, 36000, 43200, -39600])
    do = so + rng.choice([3600, 1800, -3600])
    near = [["J", 365], ["Z", 364], ["Z", 365], ["J", 1], ["Z", 0], ["M", 12, 5, rng.randint(0, 6)], ["M", 1, 1, rng.randint(0, 6)], ["J", 364], ["J", 2]]
    far = [["M", rng.randint(4, 9), rng.randint(1, 5), rng.randint(0, 6)], ["J", rng.randint(100, 250)], ["Z", rng.randint(100, 250)]]
    a, b = (rng.choice(near), rng.choice(far)) if rng.random() < 0.6 else (rng.choice(near), rng.choice(near))
    if rng.random() < 0.5:
        a, b = b, a
    tm = lambda: rng.choice([0, 1800, 7200, 84600, 86399, 86400, 3600, 82800])
    return {"k": "alt", "std": {"off": so, "dst": 0, "des": B("STD")}, "dst": {"off": do, "dst": 1, "des": B("DST")}, "sd": a, "st": tm(), "ed": b, "et": tm()}


def gen_leap_in_gap_zones(rng, n, findn=False):
    """a forward transition followed, less than one gap width later, by a leap second: the gap's transition instant must be
    converted with the correction in force AT THE TRANSITION, whatever the searched time"""
    for _ in range(n):
        gap = rng.choice([3600, 1800, 7200, 86400])
        c0 = rng.choice([0, 1, 5, 26, -1])
        T = rng.randint(10**8, 2 * 10**9)
        k = rng.randint(1, gap - 1)
        lp = []
        if c0:
            step = 1 if c0 > 0 else -1
            r0 = T - abs(c0) * 10**7 - 10**6
            lp = [[r0 + i * 10**7, step * (i + 1)] for i in range(abs(c0))]
        lp.append([T + c0 + k, c0 + rng.choice([1, 1, -1])])
        base = rng.choice([0, -18000, 3600])
        ty = [{"off": base, "dst": 0, "des": B("STD")}, {"off": base + gap, "dst": 1, "des": B("DST")}]
        rule = {"k": "fixed", "t": dict(ty[1])} if rng.random() < 0.6 else {"k": "none"}
        tr = [[T + c0, 1]] + ([[T + c0 + 10**7, 1]] if rule["k"] == "none" else [])
        yield zone_event({"tr": tr, "ty": ty, "lp": lp, "rule": rule})
        for L in sorted({T + base + d for d in (0, 1, k - 1, k, k + 1, k + 2, gap // 2, gap - 1, gap, -1)}):
            f = fields_of_local(L, 0)
            if findn:
                fn = dict(f); fn["n"] = rng.randint(1, 3)
                yield {"op": "findn", "a": fn}
            else:
                yield {"op": "find", "a": f}
        for d in (-1, 0, 1, k - 1, k, k + 1):
            yield {"op": "lookup", "a": {"u": W(T + d), "via": "ref"}}


def gen_rule_not_type0_zones(rng, n, findn=False):
    """no transition table, several local time types, and a trailing rule (fixed or daylight saving) whose types are NOT the
    zone's first type (a TZif file whose type 0 is LMT and whose footer is CET-1): every answer comes from the rule"""
    for i in range(n):
        lmt = {"off": rng.choice([561, -17762, 0, 3600]), "dst": 0, "des": B("LMT")}
        if i % 2 == 0:
            t = {"off": rng.choice([3600, -18000, 34200]), "dst": 0, "des": B("CET")}
            z = {"tr": [], "ty": [lmt, t], "lp": [], "rule": {"k": "fixed", "t": dict(t)}}
        else:
            r = corpus_rule(i)
            z = {"tr": [], "ty": [lmt, dict(r["std"]), dict(r["dst"])], "lp": [], "rule": r}
        yield zone_event(z)
        for _ in range(6):
            u = rng.randint(-2 * 10**9, 4 * 10**9)
            yield {"op": "lookup", "a": {"u": W(u), "via": rng.choice(["ref", "owned"])}}
            f = fields_of_local(u + rng.choice([z["ty"][1]["off"], lmt["off"]]), 0)
            if findn:
                f["n"] = rng.randint(0, 3)
                yield {"op": "findn", "a": f}
            else:
                yield {"op": "find", "a": f}


def gen_rule_types_not_listed(rng, n, findn=False):
    """zones whose LISTED types all share one offset while the trailing daylight-saving rule brings another one: the rule's
    halves need not be in the type list (no table: any list; with a table only the last transition's type must match the rule)"""
    for i in range(n):
        r = corpus_rule(rng.randrange(1000)) if i % 2 else rand_rule(rng)
        shape = i % 3
        if shape == 0:
            ty = [{"off": r["std"]["off"], "dst": 0, "des": B("LMT")}]
            tr = []
        elif shape == 1:
            ty = [{"off": r["dst"]["off"], "dst": rng.randint(0, 1), "des": B("QQQ")}, {"off": r["dst"]["off"], "dst": 1, "des": B("RRR")}]
            tr = []
        else:
            # a table that ends on the rule's standard half, at an instant of standard time
            y = rng.randint(1975, 2060)
            s0, e0, s1 = rule_S(r, y), rule_E(r, y), rule_S(r, y + 1)
            t = (e0 + s1) // 2 if e0 <= s1 else (rule_E(r, y - 1) + s0) // 2
            ty = [dict(r["std"]), {"off": r["std"]["off"], "dst": 0, "des": B("OLD")}]
            tr = [[t - 10**7, 1], [t, 0]]
        yield zone_event({"tr": tr, "ty": ty, "lp": [], "rule": r})
        y = rng.randint(1975, 2300)
        offs = (r["std"]["off"], r["dst"]["off"])
        a, b = min(offs), max(offs)
        for T in (rule_S(r, y), rule_E(r, y)):
            yield {"op": "lookup", "a": {"u": W(T), "via": "ref"}}
            for L in (T + a - 1, T + a, T + b - 1, T + b, T + (a + b) // 2, T + b + 86400 * 30):
                f = fields_of_local(L, 0)
                if findn:
                    f["n"] = rng.randint(0, 3)
                    yield {"op": "findn", "a": f}
                else:
                    yield {"op": "find", "a": f}
            yield {"op": "roundtrip", "a": {"u": W(T + rng.choice([-1, 0, 1, 86400 * 20])), "ns": 0}}


def gen_year_crossing_zones(rng, n, findn=False):
    """rules whose yearly instants are displaced across New Year by day times of several days: the instant, looked up and
    searched back, around New Year (every half day for 8 days each side) and around each start/end of four years"""
    for _ in range(n):
        r = year_crossing_rule(rng)
        yield zone_event({"tr": [], "ty": [dict(r["std"]), dict(r["dst"])], "lp": [], "rule": r})
        offs = [r["std"]["off"], r["dst"]["off"]]
        for u in new_year_probes(rng, r):
            yield {"op": "lookup", "a": {"u": W(u), "via": "ref"}}
            f = fields_of_local(u + rng.choice(offs), 0)
            if findn:
                f["n"] = rng.randint(0, 3)
                yield {"op": "findn", "a": f}
            else:
                yield {"op": "find", "a": f}


def gen_find_zones(rng, nzones, findn=False):
    yield from gen_year_crossing_zones(rng, max(10, nzones // 12), findn=findn)
    yield from gen_leap_in_gap_zones(rng, max(6, nzones // 15), findn=findn)
    yield from gen_rule_not_type0_zones(rng, max(6, nzones // 15), findn=findn)
    yield from gen_rule_types_not_listed(rng, max(9, nzones // 12), findn=findn)
    for i in range(max(6, nzones // 10)):
        yield from gen_rule_zone_session(rng, new_year_rule(rng), with_table=(i % 3 == 2), do_find=True, do_findn=findn, nprobe=20)
    for _ in range(max(3, nzones // 25)):
        yield from gen_zone_session(rng, gen_many_types_zone(rng), nprobe=40, do_find=True, do_findn=findn, lookups=not findn)
    yield from gen_zone_session(rng, gen_huge_type_list_zone(rng), nprobe=16, do_find=True, do_findn=findn, lookups=not findn)
    for _ in range(max(2, nzones // 60)):
        yield from gen_same_rule_family(rng, do_findn=findn)
    if not findn:
        yield from gen_range_end_finds(rng, max(10, nzones // 10))
    else:
        yield from as_findn(rng, gen_range_end_finds(rng, max(10, nzones // 10)))
        yield from gen_same_instant_pairs(rng, max(5, nzones // 20))
    for t in K2_RULES + K1_RULES + COINCIDENT_RULES:
        yield from gen_rule_zone_session(rng, named_rule(t), with_table=False, do_find=True, do_findn=findn, nprobe=60)
    for i in range(nzones // 2):
        r = corpus_rule(i) if i % 3 == 0 else rand_rule(rng)
        yield from gen_rule_zone_session(rng, r, with_table=(i % 2 == 1), do_find=True, do_findn=findn, nprobe=30)
    for _ in range(nzones):
        z = gen_table_zone(rng, nmax=rng.choice([3, 6, 12, 40]))
        yield from gen_zone_session(rng, z, nprobe=50, do_find=True, do_findn=findn, lookups=not findn)


# ---- C14 ----
def gen_range_end_finds(rng, n):
    """searches at the ends of the supported range, in fixed-offset zones and zones whose last type has a non-zero offset"""
    for _ in range(n):
        off = rng.choice([1, -1, 3600, -3600, 86399, -86399, I32MAX, I32MIN + 1, rng.randint(-10**6, 10**6)])
        ty = {"off": off, "dst": 0, "des": B("FIX")}
        kind = rng.random()
        if kind < 0.5:
            z = {"tr": [], "ty": [ty], "lp": [], "rule": {"k": "none"}}
        elif kind < 0.75:
            z = {"tr": [], "ty": [ty], "lp": [], "rule": {"k": "fixed", "t": dict(ty)}}
        elif kind < 0.85:
            z = {"tr": [[0, 0]], "ty": [ty], "lp": [], "rule": {"k": "fixed", "t": dict(ty)}}
        else:
            # the fixed rule's type is NOT one of the listed types (the listed one has another offset): the rule alone governs
            other = {"off": rng.choice([0, -off if off != I32MIN + 1 else 0, 60]), "dst": 0, "des": B("LST")}
            z = {"tr": [], "ty": [other], "lp": [], "rule": {"k": "fixed", "t": dict(ty)}}
        yield zone_event(z)
        for end in (MINT, MAXT):
            for _ in range(4):
                L = end + rng.choice([0, 1, -1, off, off + 1, off - 1, -off, 2 * off, rng.randint(-abs(off) - 5, abs(off) + 5)])
                L = max(MINT, min(MAXT, L))
                yield {"op": "find", "a": fields_of_local(L, rng.choice([0, 999999999]))}
        yield {"op": "find", "a": {"y": I32MAX, "mo": 12, "d": 31, "h": 23, "mi": 59, "s": 60, "ns": 0}}
    # a forward transition in the last (first) hour of the range: one reading of the transition instant is not representable, so the
    # search for a local time inside that gap fails - whatever the buffer's length; both searches must fail alike (C17)
    for _ in range(max(2, n // 6)):
        jump = rng.choice([3600, 1800, 7200])
        hi = rng.random() < 0.5
        if hi:
            T = MAXT + 1 - rng.choice([1800, 900, 60])
            ty = [{"off": 0, "dst": 0, "des": B("AAA")}, {"off": jump, "dst": 1, "des": B("BBB")}]
            Ls = [T + d for d in (0, 1, (MAXT - T) // 2, MAXT - T)]
        else:
            T = MINT + rng.choice([900, 60, 1800])
            ty = [{"off": -jump, "dst": 0, "des": B("AAA")}, {"off": 0, "dst": 1, "des": B("BBB")}]
            Ls = [MINT + d for d in (0, 1, (T - MINT) // 2, T - MINT - 1)]
        tail = rng.choice([{"k": "fixed", "t": dict(ty[1])}, {"k": "none"}])
        tr = [[T, 1]] + ([[T + 10**6, 0]] if tail["k"] == "none" else [])          # never the (ignored) last transition of a zone without a rule
        yield zone_event({"tr": tr, "ty": ty, "lp": [], "rule": tail})
        for L in Ls:
            yield {"op": "find", "a": fields_of_local(L, 0)}


def gen_nanos_zone(rng, nz):
    """total nanoseconds through a zone: counts around transition instants (also before 1970, where floor and truncation differ)"""
    G = 10**9
    for _ in range(nz):
        z = gen_table_zone(rng, nmax=6, base=rng.choice([-10**9, -86400 * 365, 0, 10**9]), leaps=[] if rng.random() < 0.6 else None)
        yield zone_event(z)
        for t, _ in z["tr"]:
            for d in (-1, 0, 1):
                for frac in (0, 1, G // 2, G - 1):
                    yield {"op": "fromnanos", "a": {"N": W((t + d) * G + frac), "via": "zone", "type": {"off": 0, "dst": 0, "des": []}}}
    # a zone whose type list has ONE entry is not a fixed zone: the rule (or the end of the table) still decides
    for i in range(max(6, nz // 4)):
        r = corpus_rule(i) if i % 2 == 0 else rand_rule(rng)
        if i % 3 == 2:
            t0 = rng.randint(0, 10**9)
            z = {"tr": [[t0, 0], [t0 + 10**6, 0]], "ty": [dict(r["std"])], "lp": [], "rule": {"k": "none"}}
        else:
            z = {"tr": [], "ty": [dict(r["std"])], "lp": [], "rule": r}
        yield zone_event(z)
        base_t = z["tr"][-1][0] if z["tr"] else days_from_civil(rng.randint(1980, 2100), 1, 1) * DAY
        for k in range(10):
            u = base_t + rng.choice([-1, 0, 1, 10**6]) if z["tr"] else base_t + k * 37 * DAY + rng.randint(0, 86399)
            yield {"op": "fromnanos", "a": {"N": W(u * G + rng.choice([0, 1, G - 1])), "via": "zone", "type": {"off": 0, "dst": 0, "des": []}}}
            yield {"op": "localtime", "a": {"u": W(u), "ns": 0}}
    # counts at the ends of the supported range through fixed-offset zones: the local reading, not the instant, must be representable
    for _ in range(max(6, nz // 4)):
        off = rng.choice([1, -1, 3600, -3600, 86399, -86399, rng.randint(-90000, 90000)])
        yield zone_event({"tr": [], "ty": [{"off": off, "dst": 0, "des": B("ABC")}], "lp": [], "rule": {"k": "none"}})
        for edge in (MINT, MAXT):
            for d in sorted({0, 1, -1, -off, -off - 1, -off + 1, off, rng.randint(-100000, 100000)}):
                for frac in (0, G - 1):
                    yield {"op": "fromnanos", "a": {"N": W((edge + d) * G + frac), "via": "zone", "type": {"off": 0, "dst": 0, "des": []}}}
        for N in (2**63 - 1, 2**63, 2**63 + G, -2**63, -2**63 - 1):
            yield {"op": "fromnanos", "a": {"N": W(N), "via": "zone", "type": {"off": 0, "dst": 0, "des": []}}}


def gen_ns_validation(rng, n):
    """nanosecond arguments around 1e9 wherever fields are validated (C16)"""
    # every shape of zone the search treats in its own branch: no table and no rule, a table (with and without a rule), a rule alone
    r = corpus_rule(rng.randrange(1000))
    tz = gen_table_zone(rng, nmax=4)
    while not tz["tr"]:
        tz = gen_table_zone(rng, nmax=4)
    shapes = [{"tr": [], "ty": [rand_type(rng)], "lp": [], "rule": {"k": "none"}}, tz,
              {"tr": [], "ty": [dict(r["std"]), dict(r["dst"])], "lp": [], "rule": r},
              {"tr": [[rule_S(r, 1990), 1]], "ty": [dict(r["std"]), dict(r["dst"])], "lp": [], "rule": r},
              {"tr": [[0, 0]], "ty": [rand_type(rng)], "lp": [], "rule": {"k": "none"}}]
    for i in range(n):
        if i % max(1, n // len(shapes)) == 0 and i // max(1, n // len(shapes)) < len(shapes):
            yield zone_event(shapes[i // max(1, n // len(shapes))])
        f = rand_fields(rng, 1.0)
        f["ns"] = rng.choice([999999999, 1000000000, 1000000001, 2147483647, 0])
        k = i % 5
        if f["ns"] == 2147483647 and k != 4 and rng.random() < 0.7:
            f["nsw"] = W(rng.choice([2**31, 2**31 + 1, 2**32 - 1, 3 * 10**9, 4 * 10**9]))      # beyond i32: the harness passes this value
        if k == 4:
            # the (seconds, nanoseconds) constructors take the pair as it is (no carry, no refusal), all of them alike
            t = interesting_instant(rng) if rng.random() < 0.5 else rng.randint(-10**10, 10**10)
            via = rng.choice(["utc", "dt", "fromlocal", "zone"])
            if via == "fromlocal":
                yield {"op": "fromlocal", "a": {"t": W(t), "ns": f["ns"], "type": rand_type(rng)}}
            elif via == "zone":
                yield {"op": "localtime", "a": {"u": W(t), "ns": f["ns"]}}
            else:
                yield {"op": "gmtime", "a": {"t": W(t), "ns": f["ns"], "via": via}}
        elif k == 0:
            f["via"] = rng.choice(["utc", "dt"]); yield {"op": "timegm", "a": f}
        elif k == 1:
            f["type"] = rand_type(rng); yield {"op": "newdt", "a": f}
        elif k == 2:
            f["y"] = rng.randint(1900, 2100); yield {"op": "find", "a": f}
        else:
            f["y"] = rng.randint(1900, 2100); f["n"] = rng.randint(0, 3); yield {"op": "findn", "a": f}


def gen_convenience(rng, n):
    """fixed-offset zones, the UTC constants, and the clock-reading entry points"""
    for _ in range(n):
        off = rng.choice([0, 0, 3600, -3600, I32MAX, I32MIN + 1, I32MIN, rng.randint(I32MIN, I32MAX)])
        e = {"op": "fixedzone", "a": {"off": off}, "g": 1}
        yield e
        yield {"op": "lookup", "a": {"u": W(interesting_instant(rng)), "via": rng.choice(["ref", "owned"])}}
        yield {"op": "now", "a": {"via": rng.choice(["utc", "zone"])}}


def gen_c14(rng, n):
    yield from gen_project_sec60(rng, max(40, n // 300))
    yield from gen_convenience(rng, max(10, n // 400))
    yield from gen_range_end_finds(rng, max(20, n // 200))
    z = gen_table_zone(rng, nmax=10)
    yield zone_event(z)
    for i in range(n):
        if i % 200 == 199:
            z = gen_table_zone(rng, nmax=10)
            yield zone_event(z)
        t = interesting_instant(rng)
        ns = rng.choice([0, 1, 999999999, rng.randint(0, 999999999)])
        ty = rand_type(rng, rng.choice(["small", "wide", "wide"]))
        k = rng.random()
        if i % 25 == 7:
            # the (seconds, nanoseconds) constructors take the nanoseconds as they are, also beyond one second: "its nanoseconds are
            # unchanged" and the fields are those of (seconds + offset), through every zoned entry point
            big = rng.choice([10**9, 10**9 + 1, 2 * 10**9, 2**31 - 1])
            via = rng.choice(["fromlocal", "zone", "project", "dt"])
            if via == "fromlocal":
                yield {"op": "fromlocal", "a": {"t": W(t), "ns": big, "type": ty}}
            elif via == "zone":
                yield {"op": "localtime", "a": {"u": W(t), "ns": big}}
            elif via == "project":
                yield {"op": "project", "a": {"t": W(t), "ns": big, "type": ty, "via": rng.choice(["dt", "utc"])}}
            else:
                yield {"op": "gmtime", "a": {"t": W(t), "ns": big, "via": "dt"}}
        if k < 0.25:
            yield {"op": "fromlocal", "a": {"t": W(t), "ns": ns, "type": ty}}
        elif k < 0.45:
            f = rand_fields(rng, 0.85)
            f["type"] = ty
            yield {"op": "newdt", "a": f}
        elif k < 0.6:
            yield {"op": "project", "a": {"t": W(t), "ns": ns, "type": ty, "via": rng.choice(["dt", "utc"])}}
        elif k < 0.65:
            # a source type with the SAME offset as one of the target zone's types but another designation / DST flag:
            # the projected value must carry the zone's type, not the source's
            zt = rng.choice(z["ty"])
            src = {"off": zt["off"], "dst": 1 - zt["dst"] if rng.random() < 0.5 else zt["dst"], "des": B(rng.choice(["SRC", "OTHER", "GMT"]))}
            tz_times = [tr[0] for tr in z["tr"]] or [t]
            tt = rng.choice(tz_times) + rng.choice([-1, 0, 1, 1000, -1000])
            yield {"op": "project", "a": {"t": W(max(I64MIN, min(I64MAX, tt))), "ns": ns, "type": src, "via": "dt"}}
        elif k < 0.69:
            # one operand given by its fields with second 60 (DateTime::new), the other the same or a neighbouring instant
            # given directly: equality and order are by (instant, nanoseconds) only
            L = max(MINT + 10**6, min(MAXT - 10**6, t))
            L -= L % 60
            f = fields_of_local(L - 1, ns)
            f["s"] = 60                                     # = L, second 0 of the next minute
            off = rng.choice([0, 3600, -18000, ty["off"] % 86400])
            fty = {"off": off, "dst": 0, "des": B("ABC")}
            a = dict(f, type=fty)
            t2 = L - off + rng.choice([0, 0, 0, 1, -1])
            b = {"t": W(t2), "ns": rng.choice([ns, ns, 0, 999999999]), "type": rand_type(rng, "small")}
            yield {"op": "dtcmp", "a": {"a": a, "b": b} if rng.random() < 0.5 else {"a": b, "b": a}}
        elif k < 0.695:
            # one field one step beyond its range, through the zoned constructor (the day after each month's end, leap Februaries too)
            f = rand_fields(rng, 1.0)
            y = rng.choice([2024, 2000, 1900, 2023, -4, -100, 2400, f["y"]])
            mo = rng.randint(1, 12)
            fld = rng.choice(["d", "d", "h", "mi", "s", "mo", "ns"])
            f.update({"y": y, "mo": mo, "d": rng.randint(1, 28)})
            f[fld] = {"d": dim(y, mo) + rng.choice([1, 1, 2]), "h": 24, "mi": 60, "s": 61, "mo": rng.choice([0, 13]), "ns": 10**9}[fld]
            f["type"] = ty
            yield {"op": "newdt", "a": f}
        elif k < 0.705:
            # second 60 in the last minute of a local day: the date fields stay on that day, the instant is the next midnight
            f = rand_fields(rng, 1.0)
            f.update({"h": 23, "mi": 59, "s": 60, "type": ty})
            yield {"op": "newdt", "a": f}
        elif k < 0.72:
            # exact (also negative) multiples of 10^9 and their neighbours as total counts, through a local type and through the zone
            N = rng.choice([-1, -2, -60, -86400, -2**31, -9223372036, 1, 0, rng.randint(-9 * 10**9, 9 * 10**9)]) * 10**9 + rng.choice([0, 0, 0, 1, -1, 999999999])
            yield {"op": "fromnanos", "a": {"N": W(N), "via": rng.choice(["local", "zone", "utc"]), "type": ty}}
        elif k < 0.85:
            t2 = t + rng.choice([0, 0, 1, -1, rng.randint(-5, 5)])
            ns2 = rng.choice([ns, ns, 0, 999999999])
            yield {"op": "dtcmp", "a": {"a": {"t": W(t), "ns": ns, "type": ty}, "b": {"t": W(max(I64MIN, min(I64MAX, t2))), "ns": ns2, "type": rand_type(rng, "wide")}}}
        else:
            yield {"op": "localtime", "a": {"u": W(t), "ns": ns}}


# =============================================================================================
# rules (generator-side calendar arithmetic: only used to aim probes and to build consistent zones)

def is_leap(y):
    return y % 400 == 0 or (y % 4 == 0 and y % 100 != 0)


def dim(y, m):
    return [31, 29 if is_leap(y) else 28, 31, 30, 31, 30, 31, 31, 30, 31, 30, 31][m - 1]


def rule_day_days(nd, y):
    """days since 1970-01-01 of rule day nd in year y"""
    jan1 = days_from_civil(y, 1, 1)
    if nd[0] == "J":
        return jan1 + nd[1] - 1 + (1 if is_leap(y) and nd[1] >= 60 else 0)
    if nd[0] == "Z":
        return jan1 + nd[1]
    _, m, w, d = nd
    first = days_from_civil(y, m, 1)
    wd = (first + 4) % 7
    d1 = 1 + (d - wd) % 7
    dd = d1 + 7 * (w - 1)
    if dd > dim(y, m):
        dd -= 7
    return first + dd - 1


def rule_S(r, y):
    return rule_day_days(r["sd"], y) * DAY + r["st"] - r["std"]["off"]


def rule_E(r, y):
    return rule_day_days(r["ed"], y) * DAY + r["et"] - r["dst"]["off"]


def rand_ruleday(rng):
    k = rng.random()
    if k < 0.3:
        return ["J", rng.choice([1, 59, 60, 61, 365, rng.randint(1, 365)])]
    if k < 0.6:
        return ["Z", rng.choice([0, 58, 59, 60, 364, 365, rng.randint(0, 365)])]
    return ["M", rng.randint(1, 12), rng.choice([1, 2, 3, 4, 5, 5]), rng.randint(0, 6)]


def near_ruleday(rng, nd):
    """a rule day within about +-20 days of nd (approximately)"""
    approx = nd[1] if nd[0] != "M" else (nd[1] - 1) * 30 + nd[2] * 7
    t = max(1, min(364, approx + rng.randint(-20, 20)))
    k = rng.random()
    if k < 0.35:
        return ["J", max(1, t)]
    if k < 0.7:
        return ["Z", t]
    return ["M", min(12, t // 30 + 1), rng.randint(1, 5), rng.randint(0, 6)]


def rand_rule(rng, near=None):
    so = rng.choice([0, 3600, -18000, 36000, -89999, 93599, rng.randint(-89999, 93599)])
    do = rng.choice([so + 3600, so + 3600, so - 3600, so + 1800, so, rng.randint(-89999, 93599)])
    do = max(-89999, min(93599, do))
    sd = rand_ruleday(rng)
    if near is None:
        near = rng.random() < 0.5
    ed = near_ruleday(rng, sd) if near else rand_ruleday(rng)
    def tm():
        k = rng.random()
        if k < 0.45:
            return rng.choice([0, 3600, 7200, 10800, 86400, 90000, -3600, -1, 1])
        if k < 0.75:
            return rng.choice([-1, 1]) * rng.randint(500000, 604799)
        return rng.randint(-604799, 604799)
    return {"k": "alt", "std": {"off": so, "dst": 0, "des": B(rng.choice(["EST", "CET", "STD", "-03"]))},
            "dst": {"off": do, "dst": 1, "des": B(rng.choice(["EDT", "CEST", "DST", "+1230"]))}, "sd": sd, "st": tm(), "ed": ed, "et": tm()}


CORPUS_RULES = [
    ("EST", -18000, "EDT", -14400, ["M", 3, 2, 0], 7200, ["M", 11, 1, 0], 7200),
    ("CET", 3600, "CEST", 7200, ["M", 3, 5, 0], 7200, ["M", 10, 5, 0], 10800),
    ("AEST", 36000, "AEDT", 39600, ["M", 10, 1, 0], 7200, ["M", 4, 1, 0], 10800),
    ("NZST", 43200, "NZDT", 46800, ["M", 9, 5, 0], 7200, ["M", 4, 1, 0], 10800),
    ("IST", 3600, "GMT", 0, ["M", 10, 5, 0], 7200, ["M", 3, 5, 0], 3600),            # negative DST (Europe/Dublin)
    ("-03", -10800, "-02", -7200, ["M", 3, 5, 0], -7200, ["M", 10, 5, 0], -3600),   # America/Godthab (v3)
    ("IST", 7200, "IDT", 10800, ["M", 3, 4, 4], 93600, ["M", 10, 5, 0], 7200),      # Asia/Jerusalem (v3: 26h)
    ("+01", 3600, "+00", 0, ["Z", 0], 0, ["J", 365], 90000),                         # all-year "DST"
    ("EST", -18000, "EDT", -14400, ["Z", 0], 0, ["J", 365], 90000),                  # all-year DST (America/...)
    ("<-04>", -14400, "<-03>", -10800, ["M", 9, 1, 6], 86400, ["M", 4, 1, 6], 86400),  # America/Santiago
    ("EET", 7200, "EEST", 10800, ["M", 3, 4, 4], 259200 - 86400 * 2, ["M", 10, 4, 4], 180000 - 86400),  # Gaza-like
]


# rules on which the current tree is known to misbehave (known findings K2 and K1): kept in every run so that the
# KNOWN-FINDING lines stay visible and a change in their behaviour is noticed
K2_RULES = [
    ("EST", -18000, "EDT", -14400, ["Z", 59], 90000, ["J", 60], 7200),       # EST5EDT,59/25,J60 : S = E in leap years
    ("STD", 0, "DST", 3600, ["J", 365], 90000, ["Z", 365], 10800),           # coincide in common years
]
# northern rules whose two instants coincide in common years only, and rules whose instants coincide every year (empty DST period)
COINCIDENT_RULES = [
    ("STD", 0, "DST", 3600, ["Z", 59], 0, ["J", 60], 3600),
    ("EST", -18000, "EDT", -14400, ["Z", 59], 7200, ["J", 60], 10800),
    ("STD", 0, "DST", 3600, ["M", 4, 2, 0], 7200, ["M", 4, 2, 0], 10800),
    ("STD", 0, "DST", 3600, ["J", 100], 7200, ["J", 100], 10800),
]
K1_RULES = [
    ("AAA", 56797, "BBB", -24759, ["J", 8], -417523, ["Z", 363], 599731),    # overlapping DST periods
    ("STD", 0, "DST", 3600, ["J", 8], -417523, ["Z", 363], 599731),
]


def named_rule(t):
    sn, so, dn, do, sd, st, ed, et = t
    return {"k": "alt", "std": {"off": so, "dst": 0, "des": B(sn)}, "dst": {"off": do, "dst": 1, "des": B(dn)}, "sd": sd, "st": st, "ed": ed, "et": et}


def corpus_rule(i):
    sn, so, dn, do, sd, st, ed, et = CORPUS_RULES[i % len(CORPUS_RULES)]
    clean = lambda s: s.strip("<>")
    return {"k": "alt", "std": {"off": so, "dst": 0, "des": B(clean(sn))}, "dst": {"off": do, "dst": 1, "des": B(clean(dn))}, "sd": sd, "st": st, "ed": ed, "et": et}


def rule_probes(rng, r, nyears=3):
    pts = set()
    for _ in range(nyears):
        y = rng.choice([rng.randint(1900, 2500), rng.randint(-3000, 5000), rng.randint(I32MIN + 3, I32MAX - 3), rng.choice([2000, 2004, 2100, 1970, 1969, 2399, 2400])])
        for yy in (y - 1, y, y + 1):
            if not (I32MIN + 2 <= yy <= I32MAX - 2):
                continue
            for base in (rule_S(r, yy), rule_E(r, yy)):
                for dl in (-1, 0, 1):
                    pts.add(base + dl)
            ny = days_from_civil(yy, 1, 1) * DAY
            for dl in (-1, 0, 1, -3600, 3600, -DAY, DAY):
                pts.add(ny + dl)
    # the year guard
    for yy in (I32MIN + 1, I32MIN + 2, I32MIN + 3, I32MAX - 3, I32MAX - 2, I32MAX - 1):
        if rng.random() < 0.15:
            pts.add(days_from_civil(yy, rng.choice([1, 6, 12]), 15) * DAY)
    return [p for p in pts if MINT - 10 <= p <= MAXT + 10]


def gen_rule_zone_session(rng, r, with_table=False, do_find=True, do_findn=False, nprobe=40, leaps=None):
    """A rule-only zone, or a table ending at a rule-generated transition (the table/rule junction)."""
    ty = [dict(r["std"]), dict(r["dst"])]
    tr = []
    if with_table:
        y = rng.randint(1950, 2100)
        # last table transition at/near a start or end instant of year y, with the type the rule prescribes just after it
        kind = rng.choice(["S", "E"])
        t = rule_S(r, y) if kind == "S" else rule_E(r, y)
        t += rng.choice([0, 0, 0, 1, -1, 86400, -86400, 3 * 86400])
        # a few earlier transitions
        t0 = t - rng.randint(10**6, 10**8)
        tr = [[t0, rng.randrange(2)], [t, 1 if kind == "S" else 0]]
    lp = []
    if tr and (rng.random() < 0.3 if leaps is None else leaps) and tr[0][0] > 10**8:
        # right/-style: leap records before the last transition; the table is on the leap scale, the rule on UTC
        n = rng.randint(1, 27)
        lp = [list(x) for x in rand_leaps(rng, n, start=rng.randint(0, 5 * 10**7)) if x[0] < tr[0][0] - 10**6]
        if lp:
            tr = [[tt + lp[-1][1], ix] for (tt, ix) in tr]
    z = {"tr": tr, "ty": ty, "lp": lp, "rule": r}
    yield zone_event(z)
    pts = rule_probes(rng, r)
    if tr:
        pts += [tr[-1][0] + dl for dl in (-1, 0, 1, 3600, -3600)]
    rng.shuffle(pts)
    if lp:
        # within the accumulated correction of each rule instant after the table (a rule evaluated on the wrong scale shows there)
        c = abs(lp[-1][1]) + 1
        yl = civil_year_of(tr[-1][0]) + 1
        extra = [b + d for b in (rule_S(r, yl), rule_E(r, yl), rule_S(r, yl + 1)) for d in range(-c - 1, c + 2)]
        pts = extra[:40] + pts
    offs = [r["std"]["off"], r["dst"]["off"]]

    def search(L):
        f = fields_of_local(L, 0)
        if rng.random() < 0.03:
            fld, bad = rng.choice([("ns", 10**9), ("ns", 2**31 - 1), ("s", 61), ("mi", 60), ("h", 24), ("mo", 13), ("d", 0), ("d", 32)])
            f[fld] = bad
        if do_findn and rng.random() < 0.5:
            f["n"] = rng.randint(0, 4)
            return {"op": "findn", "a": f}
        return {"op": "find", "a": f}
    for u in pts[:nprobe]:
        yield {"op": "lookup", "a": {"u": W(u), "via": "ref"}}
        if do_find and rng.random() < 0.3:
            yield {"op": "roundtrip", "a": {"u": W(u), "ns": 0}}
        if do_find and MINT + 4 * 10**5 < u < MAXT - 4 * 10**5:
            yield search(u + rng.choice(offs) + rng.choice([-1, 0, 0, 1]))
    if rng.random() < 0.3:
        # the edges of the year guard, to the second: the guard is on the UTC year of the instant, so the first and last |offset|
        # seconds of the guarded range must still be answered
        lo = days_from_civil(I32MIN + 2, 1, 1) * DAY
        hi = days_from_civil(I32MAX - 1, 1, 1) * DAY
        ds = sorted({0, 1, 2, 3600, 86399} | {abs(o) + d for o in offs for d in (-1, 0, 1) if abs(o) + d >= 0})
        for d in ds:
            yield {"op": "lookup", "a": {"u": W(lo + d), "via": "ref"}}
            yield {"op": "lookup", "a": {"u": W(hi - 1 - d), "via": "ref"}}
        for d in (1, 2, 3600):
            yield {"op": "lookup", "a": {"u": W(lo - d), "via": "ref"}}
            yield {"op": "lookup", "a": {"u": W(hi - 1 + d), "via": "ref"}}
    if do_find and rng.random() < 0.5:
        # the year guard of the rule evaluator: searches must succeed in i32::MIN+2 .. i32::MAX-2 (and may be refused outside)
        for yy in (I32MIN + 1, I32MIN + 2, I32MIN + 3, I32MAX - 3, I32MAX - 2, I32MAX - 1):
            yield search(days_from_civil(yy, rng.randint(2, 11), rng.randint(1, 28)) * DAY + rng.randint(0, 86399))
    if do_find:
        # the four boundary seconds T+a-1, T+a, T+b-1, T+b of every rule-generated transition of one year and of the table/rule
        # junction, and local times around New Year
        y = rng.choice([rng.randint(1971, 2400), 2004, 2021])
        trans = [rule_S(r, y - 1), rule_E(r, y - 1), rule_S(r, y), rule_E(r, y), rule_S(r, y + 1), rule_E(r, y + 1)]
        if tr:
            trans = [tr[-1][0]] + [t for t in (rule_S(r, yy) for yy in range(2090, 2110)) if abs(t - tr[-1][0]) < 400 * DAY][:2] \
                    + [t for t in (rule_E(r, yy) for yy in range(1940, 2110)) if abs(t - tr[-1][0]) < 400 * DAY][:2] + trans[:2]
        a, b = min(offs), max(offs)
        for T in trans:
            for L in (T + a - 1, T + a, T + b - 1, T + b, T + (a + b) // 2):
                if MINT + 4 * 10**5 < L < MAXT - 4 * 10**5:
                    yield search(L)
        ny = days_from_civil(y, 1, 1) * DAY
        for L in (ny - 3600, ny - 1800, ny - 1, ny, ny + 900, ny + 3600):
            yield search(L)


def civil_year_of(t):
    y, _, _ = civil_from_days(t // DAY)
    return y


def hhmmss(v, allow_minus_zero=True):
    sign = "-" if v < 0 else ""
    a = abs(v)
    h, m, sec = a // 3600, (a % 3600) // 60, a % 60
    if sec:
        return f"{sign}{h}:{m:02d}:{sec:02d}"
    if m:
        return f"{sign}{h}:{m:02d}"
    return f"{sign}{h}"


def rule_to_posix(r):
    """the POSIX TZ spelling of a rule (None if it has none: offsets beyond 24:59:59, times beyond 167 h, unnamed types)"""
    def name(t):
        d = bytes(t["des"]).decode("ascii", "replace")
        if len(d) < 3:
            return None
        return d if d.isalpha() else "<" + d + ">"
    def day(nd):
        return f"J{nd[1]}" if nd[0] == "J" else (str(nd[1]) if nd[0] == "Z" else f"M{nd[1]}.{nd[2]}.{nd[3]}")
    n1, n2 = name(r["std"]), name(r["dst"])
    if n1 is None or n2 is None or abs(r["std"]["off"]) > 89999 or abs(r["dst"]["off"]) > 89999 or abs(r["st"]) > 168 * 3600 + 3599 or abs(r["et"]) > 168 * 3600 + 3599:
        return None
    return f"{n1}{hhmmss(-r['std']['off'])}{n2}{hhmmss(-r['dst']['off'])},{day(r['sd'])}/{hhmmss(r['st'])},{day(r['ed'])}/{hhmmss(r['et'])}"


def gen_rule_strings(rng, rules):
    """the same rules written as POSIX TZ strings (version-3 footer; the plain paths too when the times allow): the string path
    and the constructor must decide and mean the same"""
    for r in rules:
        s = rule_to_posix(r)
        if s is None:
            continue
        vias = ["v3"]
        if 0 <= r["st"] <= 24 * 3600 + 3599 and 0 <= r["et"] <= 24 * 3600 + 3599:
            vias += ["v2", "settings"]
        for via in vias:
            yield {"op": "tzstring", "a": {"s": list(s.encode()), "via": via}}


def small_time_rule(rng):
    """a rule whose times and offsets are a few minutes or seconds either side of zero (-0:30, -0:00:01, 0:00:59 ...)"""
    r = rand_rule(rng, near=rng.random() < 0.5)
    small = [-1800, -1, -59, -60, -61, -3599, 1, 59, 1800, 3599, -3601, -86399]
    r["st"] = rng.choice(small); r["et"] = rng.choice(small + [0, 7200, -86400])
    if rng.random() < 0.5:
        r["std"]["off"] = rng.choice(small); r["dst"]["off"] = r["std"]["off"] + rng.choice([3600, 1800, -3600])
    return r


def year_crossing_rule(rng):
    """both yearly instants displaced across New Year by day times of several days (late-December days with large positive
    times, early-January days with large negative times); the times are aimed so that the displaced instant really lands in
    the neighbouring calendar year (a few hours to a few days past New Year) most of the time"""
    so = rng.choice([0, 3600, -18000, 36000])
    do = so + rng.choice([3600, -3600, 1800])
    def late():
        d = rng.choice([365, 365, 364, 362, 359, rng.randint(358, 365)])
        nd = rng.choice([["J", d], ["Z", d], ["Z", d - 1]]) if rng.random() < 0.8 else ["M", 12, rng.choice([4, 5]), rng.randint(0, 6)]
        t = (366 - d) * 86400 + rng.choice([-3600, 0, 1, 3600, 7200, 36000, 43200, 86400, 3 * 86400, rng.randint(0, 4 * 86400)])
        return nd, max(0, min(604799, t))
    def early():
        d = rng.choice([1, 1, 2, 4, 7, rng.randint(1, 8)])
        nd = rng.choice([["J", d], ["Z", d - 1], ["Z", d]]) if rng.random() < 0.8 else ["M", 1, rng.choice([1, 2]), rng.randint(0, 6)]
        t = -(d - 1) * 86400 - rng.choice([3600, 7200, 43200, 86400, 3 * 86400, 1, rng.randint(1, 4 * 86400)])
        return nd, max(-604799, min(0, t))
    k = rng.randrange(4)
    if k == 0:
        (sd, st), (ed, et) = late(), late()
        if et < st and rng.random() < 0.7:
            st, et = et, st
    elif k == 1:
        (sd, st), (ed, et) = early(), early()
    elif k == 2:
        (sd, st), (ed, et) = late(), (early()[0], rng.randint(-3600, 7200))
    else:
        (sd, st), (ed, et) = early(), (late()[0], rng.randint(0, 90000))
    return {"k": "alt", "std": {"off": so, "dst": 0, "des": B("STD")}, "dst": {"off": do, "dst": 1, "des": B("DST")}, "sd": sd, "st": st, "ed": ed, "et": et}


def extreme_displacement_rule(rng):
    """the farthest a yearly instant can lie from its own calendar year: a day at the edge of the year, a time of day within an
    hour or so of +-7 days AND an offset beyond +-24 h pulling the same way (|time - offset| between 8 days and 8 days 2 h)"""
    if rng.random() < 0.5:
        # start of year y+1 falls on December 23rd of year y: first day of the year, time near -167 h, offset near +26 h
        so = rng.randint(86400, 93599)
        sd = rng.choice([["J", 1], ["Z", 0], ["M", 1, 1, rng.randint(0, 6)]])
        st = -rng.randint(597600, 604799)
        do = so + rng.choice([1200, 3600, -3600])
        do = max(-89999, min(93599, do))
        ed, et = rng.choice([["J", 180], ["Z", 200], ["M", 7, 2, 0]]), rng.choice([0, 7200, -3600])
    else:
        # end of year y-1 falls on January 8th/9th of year y: last day of the year, time near +167 h, offset near -25 h
        do = -rng.randint(86400, 89999)
        ed = rng.choice([["Z", 365], ["J", 365], ["Z", 364], ["M", 12, 5, rng.randint(0, 6)]])
        et = rng.randint(597600, 604799)
        so = max(-89999, min(93599, do - rng.choice([3600, 1800, -3600])))
        sd, st = rng.choice([["J", 100], ["Z", 120], ["M", 4, 2, 0]]), rng.choice([0, 7200, 90000])
    if so == do:
        do = so - 1
    return {"k": "alt", "std": {"off": so, "dst": 0, "des": B("STD")}, "dst": {"off": do, "dst": 1, "des": B("DST")}, "sd": sd, "st": st, "ed": ed, "et": et}


def new_year_probes(rng, r):
    y = rng.choice([rng.randint(1971, 2400), 2004, 2021, 2100])
    ny = days_from_civil(y, 1, 1) * DAY
    pts = {ny + k * 43200 + d for k in range(-16, 17) for d in (0,)}
    for yy in (y - 2, y - 1, y, y + 1):
        for t in (rule_S(r, yy), rule_E(r, yy)):
            pts.update([t - 1, t, t + 1])
    return sorted(pts)


def gen_all_notations(rng, frac):
    """every day notation (365 Jn + 366 n + 420 Mm.w.d) as the start day of a rule-only zone, probed at its start instant
    in a leap and in a common year: one wrong table entry or month/week/day case shows up here"""
    nds = [["J", n] for n in range(1, 366)] + [["Z", n] for n in range(0, 366)] + [["M", m, w, d] for m in range(1, 13) for w in range(1, 6) for d in range(0, 7)]
    if frac < 1.0:
        nds = rng.sample(nds, int(len(nds) * frac))
    for nd in nds:
        # the end day is placed about half a year away so that the rule is accepted
        approx = nd[1] if nd[0] != "M" else (nd[1] - 1) * 30 + 15
        ed = ["J", (approx + 180) % 365 + 1]
        r = {"k": "alt", "std": {"off": 0, "dst": 0, "des": B("STD")}, "dst": {"off": 3600, "dst": 1, "des": B("DST")}, "sd": nd, "st": 7200, "ed": ed, "et": 7200}
        if rng.random() < 0.5:
            r["sd"], r["ed"] = r["ed"], r["sd"]
        yield zone_event({"tr": [], "ty": [dict(r["std"]), dict(r["dst"])], "lp": [], "rule": r})
        for y in (rng.choice([2000, 2004, 2024, 1972, 2400]), rng.choice([2001, 2023, 2100, 1900, 2019])):
            for t in (rule_S(r, y), rule_E(r, y)):
                yield {"op": "lookup", "a": {"u": W(t - 1), "via": "ref"}}
                yield {"op": "lookup", "a": {"u": W(t), "via": "ref"}}


def gen_c04(rng, nrules, do_find=False):
    yield from gen_all_notations(rng, 0.5 if nrules < 1000 else 1.0)
    for i in range(max(10, nrules // 8)):
        r = year_crossing_rule(rng)
        z = {"tr": [], "ty": [dict(r["std"]), dict(r["dst"])], "lp": [], "rule": r}
        yield zone_event(z)
        for u in new_year_probes(rng, r):
            yield {"op": "lookup", "a": {"u": W(u), "via": "ref"}}
    for i in range(max(12, nrules // 10)):
        r = extreme_displacement_rule(rng)
        yield zone_event({"tr": [], "ty": [dict(r["std"]), dict(r["dst"])], "lp": [], "rule": r})
        for y in (rng.randint(1971, 2400), rng.choice([2023, 2024, 2025])):
            for base in (rule_S(r, y), rule_E(r, y), rule_S(r, y + 1), rule_E(r, y - 1)):
                for dl in (-1, 0, 1, 1800, -1800):
                    yield {"op": "lookup", "a": {"u": W(base + dl), "via": "ref"}}
    for t in K2_RULES + K1_RULES + COINCIDENT_RULES:
        yield from gen_rule_zone_session(rng, named_rule(t), with_table=False, do_find=do_find, nprobe=60)
    for i in range(nrules):
        r = corpus_rule(i) if i % 4 == 0 else rand_rule(rng)
        yield from gen_rule_zone_session(rng, r, with_table=False, do_find=do_find)
    for i in range(max(12, nrules // 6)):
        # a table (often with leap seconds: right/-style) that hands over to the rule
        r = corpus_rule(i) if i % 3 == 0 else rand_rule(rng)
        yield from gen_rule_zone_session(rng, r, with_table=True, do_find=do_find, nprobe=50)
    rules = [small_time_rule(rng) for _ in range(max(40, nrules // 4))] + [rand_rule(rng) for _ in range(max(40, nrules // 4))] + [corpus_rule(i) for i in range(11)]
    yield from gen_rule_strings(rng, rules)
    for r in rules[: max(10, nrules // 20)]:
        if rule_to_posix(r) is not None:
            yield from gen_rule_zone_session(rng, r, with_table=False, do_find=do_find, nprobe=12)


def gen_c11(rng, n):
    for i in range(n):
        r = rand_rule(rng, near=rng.random() < 0.8)
        k = rng.random()
        if k < 0.12:
            r[rng.choice(["std", "dst"])]["off"] = rng.choice([-90000, -90001, 93600, 93601, I32MAX, I32MIN + 1])
        elif k < 0.24:
            r[rng.choice(["st", "et"])] = rng.choice([604800, -604800, 604801, I32MAX, I32MIN])
        a = {kk: r[kk] for kk in ("std", "dst", "sd", "st", "ed", "et")}
        yield {"op": "rule", "a": a}
    # near-coincident days with times a few seconds either side of the breakpoints, through the constructor and as strings
    rules = []
    for _ in range(max(60, n // 30)):
        r = small_time_rule(rng)
        r["ed"] = near_ruleday(rng, r["sd"])
        if rng.random() < 0.5:
            r["std"]["off"] = r["dst"]["off"] = 0
            r["et"] = rng.choice([-86400, 0, 86400, -172800])
        rules.append(r)
        yield {"op": "rule", "a": {kk: r[kk] for kk in ("std", "dst", "sd", "st", "ed", "et")}}
    yield from gen_rule_strings(rng, rules)
    # times towards the ends of the +-7 day window (three-digit hours, the last accepted second, the first refused one), through the
    # constructor and as version-3 footers: the two must decide alike
    wide = []
    edge = [100 * 3600, -100 * 3600, 99 * 3600 + 3599, 101 * 3600 + 60, -(120 * 3600 + 1800), 167 * 3600, -167 * 3600, 167 * 3600 + 3599, -(167 * 3600 + 3599),
            168 * 3600, -168 * 3600, 168 * 3600 + 1, 143 * 3600 + 59, -(110 * 3600 + 1)]
    for i in range(max(40, n // 60)):
        r = rand_rule(rng, near=rng.random() < 0.5)
        which = rng.choice(["st", "et", "both"])
        if which in ("st", "both"):
            r["st"] = edge[i % len(edge)] if rng.random() < 0.7 else rng.choice([-1, 1]) * rng.randint(100 * 3600, 168 * 3600)
        if which in ("et", "both"):
            r["et"] = edge[(i * 5 + 3) % len(edge)] if rng.random() < 0.7 else rng.choice([-1, 1]) * rng.randint(100 * 3600, 168 * 3600)
        wide.append(r)
        yield {"op": "rule", "a": {kk: r[kk] for kk in ("std", "dst", "sd", "st", "ed", "et")}}
    yield from gen_rule_strings(rng, wide)
    for _ in range(n // 10):
        k = rng.choice(["J", "Z", "M"])
        if k == "M":
            d = ["M", rng.randint(0, 14), rng.randint(0, 7), rng.randint(0, 8)]
        else:
            d = [k, rng.choice([0, 1, 365, 366, 367, 65535, rng.randint(0, 400)])]
        yield {"op": "ruleday", "a": {"d": d}}
    yield from gen_hostile_rules(rng, max(60, n // 20))


def gen_hostile_rules(rng, n):
    """a whole rule around a day that is ONE step outside its range in one component (week 0 / 6, week day 7, month 0 / 13,
    J0 / J366, zero-based 366), with a valid partner in the same or an adjacent month: must be refused, whatever comes after"""
    for _ in range(n):
        m = rng.randint(1, 12)
        bad = rng.choice([["M", m, 0, rng.randint(0, 6)], ["M", m, 6, rng.randint(0, 6)], ["M", m, rng.randint(1, 5), 7], ["M", 0, rng.randint(1, 5), rng.randint(0, 6)],
                          ["M", 13, rng.randint(1, 5), rng.randint(0, 6)], ["J", 0], ["J", 366], ["Z", 366], ["M", m, 0, 7]])
        partner = rng.choice([["M", m, rng.randint(1, 5), rng.randint(0, 6)], ["M", m % 12 + 1, 1, rng.randint(0, 6)], ["J", rng.randint(1, 365)], ["Z", rng.randint(0, 365)], bad])
        r = rand_rule(rng)
        sd, ed = (bad, partner) if rng.random() < 0.5 else (partner, bad)
        a = {"std": r["std"], "dst": r["dst"], "sd": sd, "st": rng.choice([0, 7200, -3600, r["st"]]), "ed": ed, "et": rng.choice([0, 7200, r["et"]])}
        yield {"op": "rule", "a": a}


# ---- C18 ----
def gen_render(rng, n):
    offs = [0, 1, -1, 59, -59, 60, -60, 61, 3599, -3599, 3600, -3600, 3601, 35999, 36000, -36000, 86399, 86400, -86400, 360000, -359999, I32MAX, I32MIN + 1, I32MIN]
    for _ in range(n):
        off = rng.choice([rng.choice(offs), rng.randint(I32MIN + 1, I32MAX), rng.randint(-100000, 100000), rng.randint(-70, 70)])
        k = rng.random()
        # a third of the local types carry a designation and a DST flag (they must not influence the text), zero offset included
        named = {"dst": rng.randint(0, 1), "des": B(rng.choice(["GMT", "WET", "+00", "BST", "UTC", "-00", "ABCDEFG"]))} if rng.random() < 0.33 and off != I32MIN else {}
        if named and rng.random() < 0.4:
            off = rng.choice([0, 0, 1, -1, 59, -59])
        if k < 0.12:
            # the value comes from a total count of nanoseconds: whole seconds before and after the epoch, counts around the word sizes
            sec = rng.choice([-1, -2, 0, 1, -86400, rng.randint(-10**10, 10**10), rng.randint(-9 * 10**9, -1), -(2**63) // 10**9, 2**63 // 10**9])
            N = sec * 10**9 + rng.choice([0, 0, 0, 1, -1, 999999999, 500000000])
            yield {"op": "rendert", "a": dict({"N": W(N), "off": off}, **named)}
        elif k < 0.5:
            t = interesting_instant(rng)
            yield {"op": "rendert", "a": dict({"t": W(t), "ns": rng.choice([0, 1, 999999999, 100000000, rng.randint(0, 999999999)]), "off": off}, **named)}
        elif k < 0.53:
            # the last and first representable local readings: year i32::MAX Dec 31 (second 60 included), year i32::MIN Jan 1
            f = rng.choice([{"y": I32MAX, "mo": 12, "d": 31, "h": 23, "mi": 59, "s": rng.choice([58, 59, 60, 60])}, {"y": I32MIN, "mo": 1, "d": 1, "h": 0, "mi": 0, "s": rng.choice([0, 1])}])
            f["ns"] = rng.choice([0, 999999999])
            f["off"] = rng.choice([1, 60, 3600, 86400, -1, -3600, off])
            f["via"] = "dtnew"
            yield {"op": "render", "a": dict(f, **named)}
        else:
            f = rand_fields(rng, 0.9)
            f["off"] = off
            f["via"] = rng.choice(["utc", "dtnew", "dtnew"])
            yield {"op": "render", "a": dict(f, **named) if f["via"] == "dtnew" else f}


# ---- C09 ----
TZ_NAMES = ["<A_B>", "<+03:30>", "<A<B>", "<D/E>", "<A.B>", "<AB*>", "EST", "EDT", "CET", "CEST", "<-03>", "<+0530>", "<+14>", "ABCDEFG", "NZST", "AB", "ABCDEFGH", "<A B>", "<AB", "A1B", "<A1B>", "", "<>", "<->"]
TZ_OFFS = ["5", "05", "+5", "-5", "5:30", "-0:30", "5:30:15", "24", "25", "24:59:59", "0", "-10", "+0", "-0", "5:60", "5:", "", "00005", "-24:59:59", "12:34:56", "1:2:3", "99999999999", "4294967296", "4294967301", "9999999999", "0:4294967296", "1:0:4294967297", "256", "65541"]
TZ_DAYS = ["M03.2.0", "M3.02.0", "M3.2.00", "M003.05.06", "J060", "059", "J0365", "0365", "M259.2.0", "M3.258.0", "M3.2.256", "M3.2.262", "J65537", "65536", "J4294967297", "M3.0.1", "M3.2.1", "M3.2.0", "M11.1.0", "M10.5.0", "M1.1.0", "M12.5.6", "J60", "J300", "J1", "J365", "59", "300", "0", "365", "J0", "J366", "366", "M13.1.0", "M3.6.0", "M3.2.7", "M3.2", "M0.1.0", "M2.5.3", ""]
TZ_TIMES = ["/02", "/002:00", "/2:00:00", "/24:30", "/24:59:59", "/-0:30", "/-0:00:01", "", "/2", "/0", "/24", "/25", "/-1", "/+2", "/167", "/168", "/2:30", "/-0:30", "/24:59:59", "/", "/2:60", "/-167:59:59", "/02:00:00", "/26", "/3:00:00"]


def rand_tz_sentence(rng):
    s = rng.choice(TZ_NAMES[:9]) + rng.choice(TZ_OFFS[:13])
    if rng.random() < 0.8:
        s += rng.choice(TZ_NAMES[:9])
        if rng.random() < 0.5:
            s += rng.choice(TZ_OFFS[:13])
        s += "," + rng.choice(TZ_DAYS[:13]) + rng.choice(TZ_TIMES[:12]) + "," + rng.choice(TZ_DAYS[:13]) + rng.choice(TZ_TIMES[:12])
    return s


def ext_edge_sentences():
    """well-formed descriptions next to ones that only RFC 8536 extensions admit (signed or > 24 h rule times) and ones that nothing
    admits (two signs), each differing from a plain sentence in ONE component"""
    out = []
    for t in ["/+2", "/-1", "/-0:30", "/25", "/100", "/167", "/+0", "/-0", "/24:59:59", "/24", "/+24", "/++2", "/-+2", "/+-2", "/168", "/-167:59:59"]:
        out.append("EST5EDT,M3.2.0" + t + ",M11.1.0/2")
        out.append("EST5EDT,M3.2.0/2,M11.1.0" + t)
        out.append("<-03>3<-02>,J60" + t + ",300" + t)
    for o in ["-+5", "+-5", "++5", "--5", "+5", "-5", "+05:00", "-+05:00", "+", "-"]:
        out.append("EST" + o)
        out.append("EST" + o + "EDT,M3.2.0,M11.1.0")
        out.append("EST5EDT" + o + ",M3.2.0,M11.1.0")
    return out


def gen_ext_edge(vias=("v2", "v3", "settings")):
    for s in ext_edge_sentences():
        for via in vias:
            yield {"op": "tzstring", "a": {"s": list(s.encode()), "via": via}}


def gen_tzstrings(rng, n):
    alphabet = list(b"ESTCD<>+-0123456789:,./MJ \t\x00\x80xyz")
    for _ in range(n):
        k = rng.random()
        if k < 0.35:
            s = rand_tz_sentence(rng).encode()
        elif k < 0.5:
            s = (rng.choice(TZ_NAMES) + rng.choice(TZ_OFFS) + rng.choice(TZ_NAMES) + rng.choice(TZ_OFFS) + "," + rng.choice(TZ_DAYS) + rng.choice(TZ_TIMES) + "," + rng.choice(TZ_DAYS) + rng.choice(TZ_TIMES)).encode()
        else:
            # single-byte deletion, insertion or substitution of a sentence
            s = bytearray(rand_tz_sentence(rng).encode())
            for _ in range(rng.choice([1, 1, 2])):
                pos = rng.randrange(len(s) + 1)
                op = rng.randrange(3)
                if op == 0 and s:
                    del s[min(pos, len(s) - 1)]
                elif op == 1:
                    s.insert(pos, rng.choice(alphabet))
                elif s:
                    s[min(pos, len(s) - 1)] = rng.choice(alphabet)
            s = bytes(s)
        # both public paths trim ASCII whitespace; keep interior whitespace, drop surrounding whitespace cases (C20 owns them)
        s = s.strip(b" \t\n\x0c\r")
        if rng.random() < 0.04:
            # ... but white space that is NOT ASCII white space is part of the text on every path: not a sentence
            ws = rng.choice(["\x0b", "\u0085", "\u00a0", "\u2003", "\u2028", "\u3000", "\x1c"]).encode()
            s = (ws + s) if rng.random() < 0.5 else (s + ws)
        vias = ["v2", "v3"]
        try:
            s.decode("utf-8")
            if b"\x00" not in s:
                vias.append("settings")
        except UnicodeDecodeError:
            pass
        for via in vias:
            yield {"op": "tzstring", "a": {"s": list(s), "via": via}}


def gen_day_notation_confusions():
    """Rule days whose notation letter is doubled, mixed or misplaced (JMm.w.d, MJn, JJn, Mn, J, M, Jn.w.d, m.w.d ...) in either
    position, with and without a time: none is a day of the grammar; and the three proper notations next to them."""
    days = ["M3.2.0", "M11.1.0", "J60", "J365", "59", "0", "365"]
    bad = []
    for d in days:
        for pre in ("J", "M", "JJ", "MM", "JM", "MJ", "+", "-", "0J", "0M"):
            bad.append(pre + d)
    bad += ["J", "M", "J60.2.0", "3.2.0", "M3.2", "M3", "M3.2.0.1", "J0", "J366", "366", "M0.1.0", "M13.1.0", "M3.0.0", "M3.6.0", "M3.2.7", "Jm3.2.0", "j60", "m3.2.0"]
    for b in bad + days:
        for tm in ("", "/2", "/0:30"):
            for text in (f"EST5EDT,{b}{tm},M11.1.0", f"EST5EDT,M3.2.0,{b}{tm}", f"<+03>-3<+04>,{b}{tm},J300/1"):
                for via in ("v2", "v3", "settings"):
                    yield {"op": "tzstring", "a": {"s": list(text.encode()), "via": via}}


# ---- corpus (C08, C03, C10) ----
import os, struct
CORPUS = os.path.join(os.path.dirname(os.path.dirname(os.path.abspath(__file__))), "corpus", "tzdata")


def corpus_files():
    out = []
    for root, _, files in os.walk(CORPUS):
        for f in files:
            p = os.path.join(root, f)
            out.append(os.path.relpath(p, CORPUS))
    return sorted(out)


INTERESTING_FILES = ["Africa/Cairo", "Africa/Casablanca", "Asia/Gaza", "America/Godthab", "America/Nuuk", "America/Adak", "Europe/Dublin", "Asia/Tbilisi", "Europe/Moscow", "Asia/Pyongyang",
                     "America/New_York", "Australia/Lord_Howe", "Antarctica/Troll", "Asia/Jerusalem", "America/Santiago", "Pacific/Apia", "right/UTC", "right/Europe/London",
                     "right/America/New_York", "right/Asia/Hovd", "right/Indian/Chagos", "Etc/UTC", "Factory", "EST5EDT", "Pacific/Kiritimati", "Africa/Monrovia", "Asia/Kathmandu"]


def parse_tzif_times(data):
    """transition times of the block tz-rs must use (generator-side, to aim probes)"""
    def hdr(p):
        ver = data[p + 4]
        c = struct.unpack(">6I", data[p + 20:p + 44])
        return ver, c
    ver, (isut, isstd, leap, time, typ, char) = hdr(0)
    p = 44
    if ver == 0:
        return [struct.unpack(">i", data[p + 4 * i:p + 4 * i + 4])[0] for i in range(time)], []
    p += time * 4 + time + typ * 6 + char + leap * 8 + isstd + isut
    ver, (isut, isstd, leap, time, typ, char) = hdr(p)
    p += 44
    times = [struct.unpack(">q", data[p + 8 * i:p + 8 * i + 8])[0] for i in range(time)]
    pl = p + time * 8 + time + typ * 6 + char
    leaps = [struct.unpack(">qi", data[pl + 12 * i:pl + 12 * i + 12]) for i in range(leap)]
    return times, leaps


def corpus_event(rel):
    data = open(os.path.join(CORPUS, rel), "rb").read()
    return {"op": "tzif", "a": {"bytes": list(data)}, "g": 1, "file": rel}, data


def select_files(rng, n):
    files = corpus_files()
    fixed = [f for f in INTERESTING_FILES if f in files]
    rest = [f for f in files if f not in fixed]
    return fixed[: max(0, n // 2)] + rng.sample(rest, max(0, min(len(rest), n - min(len(fixed), n // 2))))


def gen_corpus_decode(rng, files):
    for rel in files:
        ev, _ = corpus_event(rel)
        yield ev


def mutate_file(rng, data):
    """single-field corruptions of a real file: header counts, version, magic, type bytes, truncation, appended bytes"""
    b = bytearray(data)
    k = rng.randrange(10)
    ver = data[4]
    second = 0
    if ver != 0:
        c = struct.unpack(">6I", data[20:44])
        second = 44 + c[3] * 4 + c[3] + c[4] * 6 + c[5] + c[2] * 8 + c[1] + c[0]
    base = rng.choice([0, second])
    if k == 0:
        i = rng.randrange(6); j = (i + rng.randrange(1, 6)) % 6           # swap two header counts
        ci, cj = b[base + 20 + 4 * i: base + 24 + 4 * i], b[base + 20 + 4 * j: base + 24 + 4 * j]
        b[base + 20 + 4 * i: base + 24 + 4 * i], b[base + 20 + 4 * j: base + 24 + 4 * j] = cj, ci
    elif k == 1:
        i = rng.randrange(6)
        v = struct.unpack(">I", b[base + 20 + 4 * i: base + 24 + 4 * i])[0]
        v = rng.choice([0, 1, max(0, v - 1), v + 1, 2**31, 2**32 - 1])
        b[base + 20 + 4 * i: base + 24 + 4 * i] = struct.pack(">I", v)
    elif k == 2:
        b[base + 4] = rng.choice([0, 0x31, 0x32, 0x33, 0x34, 1, 255])
    elif k == 3:
        b[base + rng.randrange(4)] ^= 1 << rng.randrange(8)
    elif k == 4:
        del b[rng.randrange(len(b)):]
    elif k == 5:
        b += bytes([rng.choice([0, 10, 32, 65])])
    elif k == 6 and len(b) > 50:
        b[rng.randrange(44, len(b))] = rng.randrange(256)
    elif k == 7 and len(b) > 2:
        b[-1] = rng.choice([0, 32, 65, 255]) if rng.random() < 0.5 else b[-1]
        if rng.random() < 0.5:
            b[-2:] = b"\n\n"
    elif k == 8:
        pos = rng.randrange(len(b)); b[pos:pos] = bytes([rng.randrange(256)])
    else:
        pos = rng.randrange(len(b)); del b[pos]
    return bytes(b)


def gen_corpus_mutations(rng, files, per_file):
    for rel in files:
        data = open(os.path.join(CORPUS, rel), "rb").read()
        if len(data) > 4000:
            continue
        for _ in range(per_file):
            yield {"op": "tzif", "a": {"bytes": list(mutate_file(rng, data))}, "g": 1, "file": rel}


# ---- C20 ----
def synth_tzif(rng, many_types=False):
    """A well-formed TZif file built field by field, aimed at the shapes the corpus does not have: designation tables longer
    than 256 bytes with names ending beyond byte 255, shared suffixes, up to 200 types, v2+/v3 files whose 32-bit block is
    size-consistent but would not be a valid zone of its own (it must be ignored), all indicator combinations, leap tables."""
    ver = rng.choice([0, 0x32, 0x32, 0x33])
    # designation table
    names = []
    nnames = rng.choice([1, 2, 3, 6, 40, 60])
    alphabet = b"ABCDEFGHIJKLMNOPQRSTUVWXYZabcdefghijklmnopqrstuvwxyz0123456789+-"
    for _ in range(nnames):
        names.append(bytes(rng.choice(alphabet) for _ in range(rng.randint(3, 7))))
    tab = b"".join(n + b"\0" for n in names)
    starts = []
    pos = 0
    for n in names:
        for k in range(0, len(n) - 2):          # a suffix of length >= 3 is a designation too
            if pos + k <= 255:
                starts.append(pos + k)
        pos += len(n) + 1
    late = [i for i in starts if any(i <= 255 < i + 3 + d for d in range(5)) or i >= 248]
    ntypes = rng.choice([1, 2, 3, 5, 30, 200]) if len(starts) > 3 else rng.randint(1, 3)
    if many_types:
        ntypes = rng.choice([256, 257, 258, 300, 513])       # RFC 8536 does not bound typecnt; only the first 256 can be referred to
    types = []
    for _ in range(ntypes):
        idx = rng.choice(late) if late and rng.random() < 0.3 else rng.choice(starts)
        types.append((rng.choice([0, 3600, -18000, 34200, -1, 1, rng.randint(-90000, 90000)]), rng.randint(0, 1), idx))
    ntr = rng.choice([0, 1, 2, 5, 17, 40])
    def times(lo, hi, n):
        return sorted(rng.sample(range(lo, hi), n))
    t64 = times(-2**40, 2**40, ntr) if rng.random() < 0.7 else times(-2**31, 2**31 - 1, ntr)
    if ntr >= 2 and ver != 0 and rng.random() < 0.15:
        t64[0] = rng.choice([-2**63, -2**63 + 1, -2**62])            # the first of several transitions may sit at the bottom of the range
    idxs = [rng.randrange(min(ntypes, 256)) for _ in range(ntr)]
    leaps = []
    if rng.random() < 0.3:
        t, c = rng.randint(0, 10**8), 0
        for _ in range(rng.randint(1, 4)):
            c += rng.choice([1, 1, -1])
            if c == 0 and not leaps:
                c = 1
            leaps.append((t, c))
            t += rng.choice([2419199, 2419199, 2419200, rng.randint(2419199, 10**8)])
    ind = rng.choice(["none", "std", "both", "zero"])
    isstd = bytes(rng.randint(0, 1) for _ in range(ntypes)) if ind in ("std", "both") else (bytes(ntypes) if ind == "zero" else b"")
    isut = bytes((isstd[i] and rng.randint(0, 1)) for i in range(ntypes)) if ind == "both" else (bytes(ntypes) if ind == "zero" else b"")
    def block(tsz, ts, ixs, tys, lp, v):
        h = b"TZif" + bytes([v]) + bytes(15) + struct.pack(">6I", len(isut), len(isstd), len(lp), len(ts), len(tys), len(tab))
        b = b"".join(struct.pack(">i" if tsz == 4 else ">q", t) for t in ts) + bytes(ixs)
        b += b"".join(struct.pack(">iBB", o, d, i) for (o, d, i) in tys) + tab
        b += b"".join(struct.pack(">ii" if tsz == 4 else ">qi", t, c) for (t, c) in lp) + isstd + isut
        return h + b
    if ver == 0:
        t32 = times(-2**31, 2**31 - 1, ntr)
        l32 = [(t, c) for (t, c) in leaps if t < 2**31]
        return block(4, t32, idxs, types, l32, 0)
    # the 32-bit block of a version 2+ file: same counts, contents that need not be a valid zone (clamped equal times, indices out of range)
    k = rng.random()
    if k < 0.4:
        t32 = [max(-2**31, min(2**31 - 1, t)) for t in t64]          # clamping can make times equal: not strictly increasing
        ix32 = idxs
    elif k < 0.7:
        t32 = sorted(rng.randint(-2**31, 2**31 - 1) for _ in range(ntr))
        ix32 = [rng.randrange(256) for _ in range(ntr)]
    else:
        t32 = times(-2**31, 2**31 - 1, ntr)
        ix32 = idxs
    l32 = [(max(-2**31, min(2**31 - 1, t)), c) for (t, c) in leaps]
    footer = b""
    if ntr == 0 or rng.random() < 0.5:
        footer = b""
    out = block(4, t32, ix32, types, l32, ver) + block(8, t64, idxs, types, leaps, ver) + b"\n" + footer + b"\n"
    return out


def gen_synth_files(rng, n):
    # more local time types than a transition can refer to: every record is part of the zone and every record is validated
    for k in range(max(4, n // 30)):
        data = synth_tzif(rng, many_types=True)
        yield {"op": "tzif", "a": {"bytes": list(data)}, "g": 1}
        # ... the DST flag of the LAST record set to 2 (v1: in the only block; v2+: in both blocks): not a TZif file any more
        b = bytearray(data)
        pos = 0
        while True:
            cnt = struct.unpack(">6I", b[pos + 20:pos + 44])
            isut, isstd, leap, timecnt, typecnt, charcnt = cnt
            tsz = 4 if pos == 0 else 8
            tt = pos + 44 + timecnt * tsz + timecnt
            b[tt + 6 * (typecnt - 1) + 4] = 2
            pos = tt + 6 * typecnt + charcnt + leap * (tsz + 4) + isstd + isut
            if b[4] == 0 or tsz == 8:
                break
        yield {"op": "tzif", "a": {"bytes": list(bytes(b))}, "g": 1}
    for _ in range(n):
        data = synth_tzif(rng)
        yield {"op": "tzif", "a": {"bytes": list(data)}, "g": 1}
        if rng.random() < 0.3:
            for _ in range(2):
                yield {"op": "tzif", "a": {"bytes": list(mutate_file(rng, data))}, "g": 1}


def tiny_tzif(rng):
    """a valid little v1 file: one type"""
    off = rng.choice([0, 3600, -18000])
    name = rng.choice([b"UTC", b"CET", b"XYZ"])
    return b"TZif" + b"\x00" + b"\x00" * 15 + struct.pack(">6I", 0, 0, 0, 0, 1, len(name) + 1) + struct.pack(">iBB", off, 0, 0) + name + b"\x00"


def gen_resolve(rng, n):
    dirpool = ["/usr/share/zoneinfo", "/share/zoneinfo", "/etc/zoneinfo", "/z", "rel", "/a/b", ""]
    names = ["Europe/Paris", "UTC0", "EST5EDT,M3.2.0,M11.1.0", "localtime", "localtime", "A", "/abs/zone", "x/../y", "UTC", "Bad Name", "EST5", "<-03>3", "posix/UTC",
             # names that start with a dot component are relative names like any other (tried under each directory, never opened as they are);
             # descriptions that name daylight time but give no rules are not complete descriptions: no default rule may be supplied
             "./Foo", "../etc/localtime", "./Europe/Paris", ".hidden", "..", "./UTC0", "EST5EDT", "CET-1CEST", "EST5EDT4", "<+01>-1<+02>", "EST5EDT,M3.2.0"]
    # names around the usual file-name and path length limits (a TZ value has no such limit of its own)
    longs = ["/".join(["aa"] * k) for k in (85, 86, 100)] + ["b" * k for k in (255, 256, 257, 300)] + ["d/" + "c" * 254, "Zone/" + "e" * 4096]
    for _ in range(n):
        dirs = [rng.choice(dirpool) for _ in range(rng.randint(0, 4))]
        base = rng.choice(names) if rng.random() < 0.93 else rng.choice(longs)
        k = rng.random()
        s = base
        if k < 0.2:
            s = ":" + base
        elif k < 0.3:
            s = "::" + base
        elif k < 0.42:
            s = rng.choice([" ", "\t", "\n"]) + base + rng.choice(["", " ", "\r\n"])
        elif k < 0.45:
            # characters that are white space for Unicode but not for the C locale: not to be stripped
            ws = ["\x0b", "\u0085", "\u00a0", "\u2000", "\u3000", "\x1c", "\x1f"]
            s = rng.choice(ws + [""]) + base + rng.choice(ws + ["", ""])
        elif k < 0.5:
            s = rng.choice(["", ":", " ", "localtime ", ":localtime", "/etc/localtime"])
        stems = {s, s.strip(" \t\n\r\x0c"), s.lstrip(":"), ":" + s}
        cands = ["/etc/localtime"]
        for st in stems:
            cands.append(st)
            for d in dirs:
                cands.append(d + "/" + st)
        vfs = []
        for p in cands:
            r = rng.random()
            if r < 0.55:
                continue
            content = list(tiny_tzif(rng)) if r < 0.8 else ([-1] if r < 0.9 else list(rng.choice([b"", b"TZif9", b"garbage", tiny_tzif(rng)[:-2]])))
            vfs.append([B(p), content])
        rng.shuffle(vfs)
        a = {"s": B(s), "dirs": [B(d) for d in dirs], "vfs": vfs, "via": "posix"}
        if s == "localtime" and rng.random() < 0.5:
            a["via"] = "local"                                  # TimeZoneSettings::parse_local = the value "localtime"
        if rng.random() < 0.3:
            # earlier resolutions on the same settings value: other names, found in various directories (or nowhere)
            pre = []
            for _ in range(rng.randint(1, 3)):
                pn = rng.choice(["Only", "Other/Zone", base, "EST5", ":Only", "missing"])
                pre.append(B(pn))
                for d in dirs:
                    if rng.random() < 0.4:
                        vfs.append([B(d + "/" + pn.lstrip(":")), list(tiny_tzif(rng))])
            a["pre"] = pre
        yield {"op": "resolve", "a": a, "g": 1}
    for e in gen_tzstrings(rng, max(60, n // 12)):
        if e["a"]["via"] == "settings":
            try:
                txt = bytes(e["a"]["s"]).decode("utf-8")
            except UnicodeDecodeError:
                continue
            if txt and not txt.startswith(":") and "/" not in txt.split(",")[0]:
                yield {"op": "resolve", "a": {"s": B(txt), "dirs": [B("/a"), B("/b")], "vfs": [], "via": "posix"}, "g": 1}
    # descriptions one component away from needing extensions, as TZ values that no file answers: the fallback decodes WITHOUT extensions
    for txt in ext_edge_sentences():
        yield {"op": "resolve", "a": {"s": B(txt), "dirs": [B("/a")], "vfs": [[B("/b/" + txt), list(tiny_tzif(rng))]], "via": "posix"}, "g": 1}
    # white space that is not ASCII white space is part of the value: a description padded with it is not a description
    for ws in ["\x0b", "\u0085", "\u00a0", "\u2000", "\u2003", "\u2028", "\u3000", "\x1c"]:
        for desc in ["HST10", "UTC0", "EST5EDT,M3.2.0,M11.1.0"]:
            for s2 in (ws + desc, desc + ws):
                yield {"op": "resolve", "a": {"s": B(s2), "dirs": [B("/zi")], "vfs": [], "via": "posix"}, "g": 1}
    # the same settings value used twice: a name found only in a later directory, then a name present in that directory and an earlier one
    for _ in range(max(4, n // 100)):
        nd = rng.randint(2, 4)
        dirs = rng.sample(["/d1", "/d2", "/d3", "/d4", "rel"], nd)
        kdir = rng.randrange(1, nd)
        first = rng.choice(["Only", "A/B", "EST5"])
        second = rng.choice(["Both", "UTC0", "Europe/Paris"])
        vfs = [[B(dirs[kdir] + "/" + first), list(tiny_tzif(rng))]]
        for i in sorted(rng.sample(range(nd), rng.randint(2, nd)) + [kdir]):
            vfs.append([B(dirs[i] + "/" + second), list(tiny_tzif(rng))])
        yield {"op": "resolve", "a": {"s": B(rng.choice(["", ":"]) + second), "dirs": [B(d) for d in dirs], "vfs": vfs, "via": "posix", "pre": [B(first)]}, "g": 1}


# ---- C07: hostile inputs ----
def hostile_bytes(rng, data):
    b = bytearray(data)
    k = rng.randrange(8)
    if k == 0:
        for _ in range(rng.randint(1, 8)):
            b[rng.randrange(len(b))] ^= 1 << rng.randrange(8)
    elif k == 1:
        i = rng.randrange(len(b)); j = rng.randrange(len(b))
        b[i:i] = b[j:j + rng.randint(1, 64)]
    elif k == 2:
        i = rng.randrange(len(b)); del b[i:i + rng.randint(1, 64)]
    elif k == 3:
        for base in (0,):
            i = rng.randrange(6)
            b[20 + 4 * i:24 + 4 * i] = struct.pack(">I", rng.choice([0, 1, 2**31 - 1, 2**31, 2**32 - 1, 0x01000000, 65536]))
    elif k == 4:
        # extreme 64-bit values sprinkled in
        for _ in range(rng.randint(1, 4)):
            i = rng.randrange(max(1, len(b) - 8))
            b[i:i + 8] = struct.pack(">q", rng.choice([I64MIN, I64MAX, -1, 0, I64MIN + 1, MINT, MAXT]))
    elif k == 5:
        del b[rng.randrange(len(b)):]
    elif k == 6:
        i = rng.randrange(len(b))
        b[i:i + 4] = struct.pack(">i", rng.choice([I32MIN, I32MAX, -1, 0]))
    else:
        return mutate_file(rng, data)
    return bytes(b)


def gen_hostile_files(rng, files, per_file):
    for rel in files:
        data = open(os.path.join(CORPUS, rel), "rb").read()
        if len(data) > 4000:
            continue
        for _ in range(per_file):
            yield {"op": "tzif", "a": {"bytes": list(hostile_bytes(rng, data))}, "g": 1}
            if rng.random() < 0.3:
                yield {"op": "lookup", "a": {"u": W(rng.choice([I64MIN, I64MAX, 0, MINT, MAXT, rng.randint(I64MIN, I64MAX)])), "via": "owned"}}
                yield {"op": "find", "a": rand_fields(rng, 0.9)}


def gen_hostile_strings(rng, n):
    alphabet = list(range(256))
    pieces = [b"<", b">", b",", b"/", b":", b"-", b"+", b".", b"M", b"J", b"0", b"9", b"99999999999999999999", b"4294967296", b"9999999999", b"4294967301", b"2147483648", b"65536", b"256", b"\x00", b"\xff\xfe", b"\xc3\xa9", b" ", b"\n", b"EST", b"<" * 20, b"1" * 300]
    for _ in range(n):
        k = rng.random()
        if k < 0.4:
            s = b"".join(rng.choice(pieces) for _ in range(rng.randint(0, 12)))
        elif k < 0.7:
            s = bytes(rng.choice(alphabet) for _ in range(rng.randint(0, 40)))
        else:
            s = bytearray(rand_tz_sentence(rng).encode())
            for _ in range(rng.randint(1, 4)):
                s[rng.randrange(len(s)):rng.randrange(len(s))] = rng.choice(pieces)
            s = bytes(s)
        for via in ("v2", "v3"):
            yield {"op": "tzstring", "a": {"s": list(s), "via": via}}
    # rule days one step outside their range next to a valid day of the same month, as strings and as constructor arguments
    for _ in range(max(40, n // 50)):
        m = rng.randint(1, 12)
        bad = rng.choice([f"M{m}.0.{rng.randint(0, 6)}", f"M{m}.6.{rng.randint(0, 6)}", f"M{m}.{rng.randint(1, 5)}.7", f"M0.1.0", f"M13.1.0", "J0", "J366", "366"])
        good = rng.choice([f"M{m}.{rng.randint(1, 5)}.{rng.randint(0, 6)}", f"M{m % 12 + 1}.1.{rng.randint(0, 6)}", f"J{rng.randint(1, 365)}"])
        a, b = (bad, good) if rng.random() < 0.5 else (good, bad)
        s = f"AAA{rng.choice(['0', '5', '-3'])}BBB,{a}{rng.choice(['', '/2', '/-1'])},{b}".encode()
        for via in ("v2", "v3"):
            yield {"op": "tzstring", "a": {"s": list(s), "via": via}}
    yield from gen_hostile_rules(rng, max(60, n // 40))


def gen_hostile_tz_values(rng):
    """TZ values (text) that no file answers: long names whose multi-byte characters straddle every byte offset up to 80 (a fixed
    byte-offset slice of the text falls inside a character), control characters, very long values - through the in-memory
    reader, the default settings and the forced-lookup form"""
    for ch in ("\u00e9", "\u20ac", "\U0001f30d"):
        for k in range(0, 5):
            for total in (8, 33, 70, 300):
                txt = "a" * k + ch * total
                for pre in ("", ":"):
                    yield {"op": "resolve", "a": {"s": B(pre + txt), "dirs": [B("/zi"), B("rel")], "vfs": [], "via": "posix"}, "g": 1}
                yield {"op": "posixtz", "a": {"s": B(txt)}}
    for txt in ["x" * 5000, "Zone/" * 900, "\x01\x02\x7f", "A\u0301" * 50, "EST5EDT," + "\u00e9" * 40, "<" + "\u00e9" * 3 + ">5"]:
        yield {"op": "resolve", "a": {"s": B(txt), "dirs": [B("/zi")], "vfs": [], "via": "posix"}, "g": 1}
        yield {"op": "posixtz", "a": {"s": B(txt)}}


def gen_extreme_leap_pairs():
    """two leap records whose first is well formed and whose time difference does not fit 64 bits (or barely does), in both
    orders and with both signs: every one must be refused (or accepted) by value, never by an overflowing subtraction"""
    ty = [{"off": 0, "dst": 0, "des": B("UTC")}]
    firsts = [0, 1, 2, 78796800, 2**62, I64MAX - 1, I64MAX]
    seconds = [I64MIN, I64MIN + 1, I64MIN + 2, -(2**62) - 5, -2, -1, 0, I64MAX, I64MAX - 2419199, 2**62 + 2419199]
    for x0 in firsts:
        for x1 in seconds + [max(I64MIN, I64MIN + x0 - 1), max(I64MIN, I64MIN + x0), min(I64MAX, x0 + 2419199), min(I64MAX, x0 + 2419198)]:
            for c0 in (1, -1):
                yield zone_event({"tr": [], "ty": ty, "lp": [[x0, c0], [x1, c0 + 1]], "rule": {"k": "none"}})


def gen_hostile_numbers(rng, n):
    yield from gen_extreme_leap_pairs()
    yield from gen_zone_session(rng, gen_huge_type_list_zone(rng), nprobe=12, do_find=True)
    for c in list(range(0x7f, 0x100)) + [0, 1, 0x1f, 0x20, 0x2c, 0x2f, 0x3a, 0x40, 0x5b, 0x60, 0x7b]:
        for des in ([c, 65, 66], [65, 66, c], [c] * 7):
            yield {"op": "type", "a": {"off": 0, "dst": 0, "des": des, "nodes": 0, "via": "new"}}
    ext64 = [I64MIN, I64MIN + 1, I64MAX, I64MAX - 1, MINT, MAXT, MINT - 1, MAXT + 1, 0, -1]
    ext32 = [I32MIN + 1, I32MAX, 0, -1, 1, I32MIN + 2, I32MAX - 1]
    for _ in range(n):
        ntypes = rng.randint(1, 3)
        ty = [{"off": rng.choice(ext32 + [rng.randint(I32MIN + 1, I32MAX)]), "dst": rng.randint(0, 1), "des": B(rng.choice(DESIGS))} for _ in range(ntypes)]
        times = sorted(set(rng.sample(ext64 + [rng.randint(I64MIN, I64MAX) for _ in range(4)], rng.randint(0, 6))))
        tr = [[t, rng.randrange(ntypes)] for t in times]
        last_type = dict(ty[tr[-1][1]]) if tr else None
        if tr and rng.random() < 0.15:
            tr[rng.choice([-1, -1, 0])][1] = ntypes + rng.choice([0, 1, 250])          # out-of-range type index (must be refused, never indexed)
        lp = []
        if rng.random() < 0.4:
            r0 = rng.choice([0, I64MAX - 5 * 10**6, rng.randint(0, I64MAX - 10**8)])
            c0 = rng.choice([1, -1, I32MAX, I32MIN, 0])
            lp = [[r0, c0]]
            if rng.random() < 0.6:
                lp.append([min(I64MAX, r0 + rng.choice([2419199, 2419200, 10**7])), c0 + rng.choice([1, -1]) if abs(c0) < 2**31 - 2 else c0])
            if rng.random() < 0.5:
                # leap records anywhere in i64, in any order, with any corrections (must be refused, never overflow)
                lp = [[rng.choice(ext64 + [1, 2, rng.randint(I64MIN, I64MAX)]), rng.choice([1, -1, 2, 0, I32MIN, I32MAX])] for _ in range(rng.randint(1, 3))]
        k = rng.random()
        if k < 0.4 or not tr:
            rule = {"k": "none"}
        elif k < 0.7:
            rule = {"k": "fixed", "t": last_type}
        else:
            rule = rand_rule(rng)
            if rng.random() < 0.4:
                rule[rng.choice(["sd", "ed"])] = rng.choice([["Z", 365], ["Z", 0], ["J", 365], ["J", 1], ["M", 12, 5, rng.randint(0, 6)], ["M", 1, 1, rng.randint(0, 6)]])
        if rule["k"] == "alt" and rng.random() < 0.6:
            # a rule-only zone is always accepted, so the rule evaluator really runs at the extreme years
            tr, lp = [], []
            ty = [dict(rule["std"]), dict(rule["dst"])]
            times = []
        z = {"tr": tr, "ty": ty, "lp": lp, "rule": rule}
        yield zone_event(z)
        guard_years = [I32MIN, I32MIN + 1, I32MIN + 2, I32MIN + 3, I32MAX - 3, I32MAX - 2, I32MAX - 1, I32MAX]
        guard_instants = [days_from_civil(y, m, d) * DAY + s for y in guard_years for (m, d, s) in ((1, 1, 0), (12, 31, 84600), (6, 15, 43200))]
        guard_instants = [t for t in guard_instants if I64MIN <= t <= I64MAX]
        for _ in range(6):
            u = rng.choice(ext64 + [t + d for t in times for d in (-1, 0, 1) if I64MIN <= t + d <= I64MAX] + [rng.randint(I64MIN, I64MAX)] + guard_instants * 2)
            yield {"op": "lookup", "a": {"u": W(u), "via": rng.choice(["ref", "owned"])}}
            yield {"op": "localtime", "a": {"u": W(u), "ns": rng.choice([0, 2147483647])}}
            f = rand_fields(rng, 0.9)
            f["y"] = rng.choice([I32MIN, I32MIN + 1, I32MIN + 2, I32MAX - 2, I32MAX - 1, I32MAX, f["y"]])
            if rng.random() < 0.5:
                f["n"] = rng.randint(0, 8)
                yield {"op": "findn", "a": f}
            else:
                yield {"op": "find", "a": f}
            yield {"op": "fromnanos", "a": {"N": W(rng.choice([-2**127, 2**127 - 1, u * 10**9, rng.randint(-2**127, 2**127 - 1)])), "via": "zone", "type": ty[0]}}
            yield {"op": "project", "a": {"t": W(u), "ns": 0, "type": ty[0], "via": rng.choice(["dt", "utc"])}}
            yield {"op": "rendert", "a": {"t": W(u), "ns": 0, "off": rng.choice(ext32 + [I32MIN])}}
    for _ in range(n):
        r = rand_rule(rng)
        r["st"] = rng.choice([I32MIN, I32MAX, 604799, -604799, r["st"]])
        r["std"]["off"] = rng.choice(ext32 + [r["std"]["off"]])
        yield {"op": "rule", "a": {kk: r[kk] for kk in ("std", "dst", "sd", "st", "ed", "et")}}
