"""Argument generators for the impl -> spec direction. Generators only choose inputs; they never judge a result."""
import random
from common import W, B

MINT = -67768100567971200
MAXT = 67767976233532799
I64MIN, I64MAX = -2**63, 2**63 - 1
I32MIN, I32MAX = -2**31, 2**31 - 1
DAY = 86400
CYCLE_S = 146097 * DAY


def clamp64(v):
    return max(I64MIN, min(I64MAX, v))


def days_from_civil(y, m, d):
    # input selection only (Howard Hinnant's algorithm); never used to judge a result
    y -= m <= 2
    era = (y if y >= 0 else y - 399) // 400
    yoe = y - era * 400
    doy = (153 * (m + (-3 if m > 2 else 9)) + 2) // 5 + d - 1
    doe = yoe * 365 + yoe // 4 - yoe // 100 + doy
    return era * 146097 + doe - 719468


def interesting_instant(rng):
    k = rng.random()
    if k < 0.30:
        return rng.randint(MINT, MAXT)
    if k < 0.40:
        return rng.choice([MINT, MAXT]) + rng.randint(-2 * DAY, 2 * DAY)
    if k < 0.45:
        return clamp64(rng.choice([I64MIN, I64MAX, MINT - 1, MAXT + 1, MINT - DAY, 0, -1]) + rng.choice([0, 0, 1, -1]))
    if k < 0.70:
        # around a year / century / cycle boundary of a random year
        y = rng.choice([rng.randint(I32MIN, I32MAX), rng.randint(-500, 3000), rng.choice([1600, 1700, 1900, 1970, 2000, 2100, 2400, 0, -1, -400, 4])])
        m, d = rng.choice([(1, 1), (3, 1), (2, 28), (2, 29), (12, 31), (1, 31), (4, 30), (8, 31), (7, 1)])
        if (m, d) == (2, 29):
            m, d = 3, 1
            off = -DAY
        else:
            off = 0
        t = days_from_civil(y, m, d) * DAY + off + rng.choice([-3, -2, -1, 0, 1, 2, 3, DAY - 1, DAY, 43200])
        return max(MINT - 5, min(MAXT + 5, t))
    if k < 0.85:
        # negative remainders
        q = rng.randint(MINT // DAY, MAXT // DAY)
        return q * DAY + rng.choice([-1, -86399, 0, 1, 86399])
    return rng.randint(-2**40, 2**40)


def gen_gmtime(rng, n):
    for _ in range(n):
        yield {"op": "gmtime", "a": {"t": W(interesting_instant(rng)), "ns": rng.choice([0, 1, 999999999, 1000000000, 2147483647, rng.randint(0, 999999999)]),
                                    "via": rng.choice(["utc", "dt"])}}


def rand_fields(rng, valid_bias=0.7):
    y = rng.choice([rng.randint(I32MIN, I32MAX), rng.randint(1500, 2500), rng.randint(-5, 5), I32MAX, I32MIN, I32MAX - 1, I32MIN + 1,
                    rng.choice([1600, 1700, 1900, 1968, 1969, 1970, 1971, 1972, 2000, 2100, 2400])])
    if rng.random() < valid_bias:
        mo = rng.randint(1, 12)
        d = rng.choice([1, 28, 29, 30, 31, rng.randint(1, 28)])
        h, mi, s = rng.choice([0, 23, rng.randint(0, 23)]), rng.choice([0, 59, rng.randint(0, 59)]), rng.choice([0, 59, 60, rng.randint(0, 59)])
        ns = rng.choice([0, 999999999, rng.randint(0, 999999999)])
    elif rng.random() < 0.7:
        # exactly one defect in otherwise valid fields
        f = rand_fields(rng, 1.0)
        key = rng.choice(["mo", "d", "d", "h", "mi", "s", "ns"])
        f[key] = {"mo": rng.choice([0, 13, 255]), "d": rng.choice([0, 32, 255, 31, 30, 29]), "h": rng.choice([24, 255]), "mi": rng.choice([60, 255]),
                  "s": rng.choice([61, 255]), "ns": rng.choice([1000000000, 2147483647])}[key]
        return f
    else:
        mo = rng.choice([0, 13, 255, rng.randint(0, 14)])
        d = rng.choice([0, 32, 255, rng.randint(0, 33)])
        h, mi, s = rng.choice([24, 255, rng.randint(0, 25)]), rng.choice([60, 255, rng.randint(0, 61)]), rng.choice([61, 255, rng.randint(0, 62)])
        ns = rng.choice([0, 999999999, 1000000000, 2147483647])
    return {"y": y, "mo": mo, "d": d, "h": h, "mi": mi, "s": s, "ns": ns}


def gen_timegm(rng, n):
    for _ in range(n):
        f = rand_fields(rng)
        f["via"] = rng.choice(["utc", "dt"])
        yield {"op": "timegm", "a": f}
    # the documented corner: i32::MAX-12-31T23:59:60 and its neighbours
    for y in (I32MAX, I32MAX - 1, I32MIN):
        for s in (59, 60):
            for via in ("utc", "dt"):
                yield {"op": "timegm", "a": {"y": y, "mo": 12, "d": 31, "h": 23, "mi": 59, "s": s, "ns": 0, "via": via}}
                yield {"op": "timegm", "a": {"y": y, "mo": 1, "d": 1, "h": 0, "mi": 0, "s": 0, "ns": 0, "via": via}}


def gen_utccmp(rng, n):
    for _ in range(n):
        a = rand_fields(rng, 1.0)
        k = rng.random()
        if k < 0.5:
            b = dict(a)
            key = rng.choice(["y", "mo", "d", "h", "mi", "s", "ns"])
            b[key] = rand_fields(rng, 1.0)[key]
        else:
            b = rand_fields(rng, 1.0)
        yield {"op": "utccmp", "a": {"a": a, "b": b}}


def gen_nanos(rng, n):
    G = 10**9
    anchors = [0, G, -G, 2 * G, -2 * G, 3 * G, -3 * G, I64MIN * G, I64MAX * G, (I64MAX + 1) * G, (I64MIN - 1) * G, MINT * G, MAXT * G + G - 1,
               -2**127, 2**127 - 1]
    for _ in range(n):
        k = rng.random()
        if k < 0.35:
            N = rng.choice(anchors) + rng.randint(-2500, 2500)
        elif k < 0.6:
            N = rng.randint(MINT * G, MAXT * G + G - 1)
        elif k < 0.8:
            mag = 10 ** rng.uniform(0, 38.2)
            N = int(mag) * rng.choice([1, -1])
        else:
            N = rng.randint(-5, 5) * G + rng.choice([-1, 0, 1, G - 1, G // 2])
        N = max(-2**127, min(2**127 - 1, N))
        via = rng.choice(["utc", "local", "local"])
        off = rng.choice([0, 1, -1, 3600, -3600, I32MAX, I32MIN + 1, rng.randint(I32MIN + 1, I32MAX)])
        yield {"op": "fromnanos", "a": {"N": W(N), "via": via, "type": {"off": off, "dst": rng.randint(0, 1), "des": rng.choice([[], B("ABC"), B("+0330")])}}}
