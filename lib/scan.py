"""Static footprint scan for C15: one fact per occurrence of a construct that could introduce process-global or interior
mutable state. The facts are judged by the trace specification (FootprintAllowed), not here."""
import os, re

PATTERNS = [
    ("static-item", re.compile(r"(?m)^\s*(?:pub(?:\([^)]*\))?\s+)?static\s+(?:mut\s+)?[A-Za-z_]")),
    ("thread-local", re.compile(r"\bthread_local\s*!")),
    ("interior-mutability", re.compile(r"\b(?:Cell|RefCell|UnsafeCell|OnceCell|OnceLock|LazyLock|LazyCell|Lazy|SyncUnsafeCell)\b")),
    ("atomic", re.compile(r"\bAtomic[A-Z][A-Za-z0-9]*\b")),
    ("lock", re.compile(r"\b(?:Mutex|RwLock|Condvar|Once|Barrier|ReentrantLock)\b")),
    ("env", re.compile(r"\benv\s*::|\bstd::env\b|\benv!\s*\(|\boption_env!\s*\(|\bset_var\b|\bvar_os\b")),
    ("unsafe", re.compile(r"\bunsafe\b")),
    ("ffi", re.compile(r"\bextern\s+\"|#\[\s*no_mangle|#\[\s*link\b|\blibc::")),
    ("clock", re.compile(r"\bSystemTime\s*::\s*now\b|\bInstant\s*::\s*now\b")),
    ("fs", re.compile(r"\bstd::fs\b|\bfs::read|\bFile::open\b")),
    ("rc", re.compile(r"\b(?:Rc|Weak)\s*<")),
    ("process", re.compile(r"\bstd::process\b|\bstd::net\b")),
    # process-wide registrations and settings: the panic hook, the allocation-error hook, the working directory, the environment
    ("process-hook", re.compile(r"\b(?:set_hook|take_hook|update_hook|set_alloc_error_hook|take_alloc_error_hook|set_current_dir|remove_var|set_output_capture)\b")),
]


def strip_code(src):
    """remove comments and string/char literals (keeping line structure) and the trailing #[cfg(test)] module"""
    out = []
    i, n = 0, len(src)
    while i < n:
        c = src[i]
        if src.startswith("//", i):
            j = src.find("\n", i)
            i = n if j < 0 else j
        elif src.startswith("/*", i):
            j = src.find("*/", i + 2)
            seg = src[i:(n if j < 0 else j + 2)]
            out.append("\n" * seg.count("\n"))
            i = n if j < 0 else j + 2
        elif c == '"':
            j = i + 1
            while j < n and src[j] != '"':
                j += 2 if src[j] == "\\" else 1
            seg = src[i:j + 1]
            out.append('""' + "\n" * seg.count("\n"))
            i = j + 1
        elif c == "'" and i + 2 < n and (src[i + 2] == "'" or (src[i + 1] == "\\" and src.find("'", i + 2) - i <= 6)):
            j = src.find("'", i + 2)
            out.append("' '")
            i = j + 1
        else:
            out.append(c)
            i += 1
    code = "".join(out)
    m = re.search(r"(?m)^#\[cfg\(test\)\]\s*\n\s*mod\s+tests\b", code)
    if m:
        code = code[:m.start()]
    return code


def scan_repo(repo):
    facts = []
    for root, _, files in os.walk(os.path.join(repo, "src")):
        for f in sorted(files):
            if not f.endswith(".rs"):
                continue
            p = os.path.join(root, f)
            rel = os.path.relpath(p, repo)
            code = strip_code(open(p).read())
            for kind, rx in PATTERNS:
                for m in rx.finditer(code):
                    line = code.count("\n", 0, m.start()) + 1
                    facts.append({"kind": kind, "file": rel, "line": line, "text": list(m.group(0).strip().encode())[:40]})
    cargo = open(os.path.join(repo, "Cargo.toml")).read()
    m = re.search(r"(?ms)^\[(?:target\.[^\]]*\.)?dependencies\]\s*\n(.*?)(?=^\[|\Z)", cargo)
    if m:
        for ln in m.group(1).splitlines():
            if ln.strip() and not ln.strip().startswith("#"):
                facts.append({"kind": "dependency", "file": "Cargo.toml", "line": 0, "text": list(ln.strip().encode())[:40]})
    if os.path.exists(os.path.join(repo, "build.rs")) or re.search(r"(?m)^build\s*=", cargo):
        facts.append({"kind": "build-script", "file": "Cargo.toml", "line": 0, "text": []})
    nfiles = sum(len([f for f in fs if f.endswith(".rs")]) for _, _, fs in os.walk(os.path.join(repo, "src")))
    return facts, nfiles
