SPECIFICATION Spec
INVARIANT Inv
CONSTANTS
  EmitVec = FALSE
  Cycles = {4}
  Secs = {0}
  Mod = 1
  Rem = 0
CHECK_DEADLOCK FALSE
