------------------------------ MODULE MC_Nanos ------------------------------
(***************************************************************************)
(* C16: total nanoseconds <-> (seconds, nanoseconds).  Checks the split /  *)
(* join laws on wide integers around every boundary the statement names    *)
(* and emits spec -> impl vectors.                                         *)
(***************************************************************************)
EXTENDS DateTime, TLC, Json
CONSTANTS R, EmitVec
VARIABLES vK, vDl
vars == <<vK, vDl>>
WMinI128 == <<1, 728, 105, 884, 715, 303, 687, 731, 231, 469, 460, 183, 141, 170>>
WMaxI128 == <<0, 727, 105, 884, 715, 303, 687, 731, 231, 469, 460, 183, 141, 170>>
Anchors == <<WInt(0), WShl3(WInt(1)), WShl3(WInt(-1)), WShl3(WInt(2)), WShl3(WInt(-2)), WShl3(WInt(3)), WShl3(WInt(-3)),
             WShl3(WMinI64), WShl3(WAddInt(WMinI64, -1)), WShl3(WMaxI64), WShl3(WAddInt(WMaxI64, 1)),
             WShl3(MinTW), WAddInt(WShl3(MaxTW), 999999999), WAddInt(WMinI128, R), WAddInt(WMaxI128, -R),
             WShl3(WInt(951868800)), WShl3(WInt(-86400)),
             WAddInt(WMaxI64, 1), WMinI64>>                     \* 2^63 and -2^63 as COUNTS of nanoseconds (where a 64-bit recombination wraps)
Init == vK \in 1..Len(Anchors) /\ vDl = -R
Next == vDl < R /\ vDl' = vDl + 1 /\ vK' = vK
Spec == Init /\ [][Next]_vars
N == WAddInt(Anchors[vK], vDl)
NanosOK ==
  LET sp == Split(N) IN
  /\ IsWide(N) /\ IsWide(sp.q)
  /\ sp.r >= 0 /\ sp.r < 1000000000
  /\ Join(sp.q, sp.r) = N                                         \* recombining gives back the original count
  /\ Split(Join(sp.q, (sp.r + 1) % 1000000000)) = [q |-> sp.q, r |-> (sp.r + 1) % 1000000000]
  /\ WLe(WShl3(sp.q), N) /\ WLt(N, WShl3(WAddInt(sp.q, 1)))       \* floor: q*10^9 <= N < (q+1)*10^9
  /\ (vDl > -R => LET pr == Split(WAddInt(N, -1)) IN              \* monotone, one step at a time
        \/ (pr.q = sp.q /\ pr.r + 1 = sp.r) \/ (sp.r = 0 /\ pr.r = 999999999 /\ WAddInt(pr.q, 1) = sp.q))
Out2Vec(out) == {[ok |-> v] : v \in out.ok} \cup {[err |-> e] : e \in out.err}
Expect(via, ty) ==
  LET sp == Split(N) IN
  IF ~WFitsI64(sp.q) THEN OutErr("OutOfRange")
  ELSE IF via = "utc" THEN Gmtime(WToCDS(sp.q), sp.r) ELSE FromLocal(WToCDS(sp.q), sp.r, ty)
Ty1 == [off |-> 3600, dst |-> 1, des |-> <<67, 69, 83, 84>>]
Ty2 == [off |-> -2147483647, dst |-> 0, des |-> <<>>]
Emit == EmitVec =>
  /\ PrintT(<<"VEC", ToJson([op |-> "fromnanos", a |-> [N |-> N, via |-> "utc", type |-> Ty1], x |-> Out2Vec(Expect("utc", Ty1))])>>)
  /\ PrintT(<<"VEC", ToJson([op |-> "fromnanos", a |-> [N |-> N, via |-> "local", type |-> Ty1], x |-> Out2Vec(Expect("local", Ty1))])>>)
  /\ (vDl % 16 = 0 => PrintT(<<"VEC", ToJson([op |-> "fromnanos", a |-> [N |-> N, via |-> "local", type |-> Ty2], x |-> Out2Vec(Expect("local", Ty2))])>>))
Inv == NanosOK /\ Emit
=============================================================================
