----------------------------- MODULE MC_Resolve -----------------------------
(***************************************************************************)
(* C20 at the specification level: all TZ values of a menu x all directory *)
(* lists of length <= 3 over 3 names x all virtual file systems assigning  *)
(* {absent, valid, malformed, unreadable} to every candidate path.         *)
(* Theorems: requests are a prefix of the plan, which depends on (value,   *)
(* dirs) only; the first readable file wins and nothing is requested after *)
(* it; a file beats the description; ':' and 'localtime' never fall back.  *)
(* Each configuration is a vector (judged by the trace specification).     *)
(***************************************************************************)
EXTENDS Resolve, TLC, Json, SequencesExt
CONSTANTS EmitVec, MaxDirs
VARIABLES vPh, vS, vDirs, vVfs
vars == <<vPh, vS, vDirs, vVfs>>
B2(a, b) == <<a, b>>
DirNames == <<<<47, 122, 49>>, <<47, 122, 50>>, <<122, 51>>>>                  \* "/z1" "/z2" "z3"
\* a valid little version-1 file (one type UTC+1h "CET") and a malformed one
ValidFile == Encode(0, <<>>, <<>>, [tr |-> <<>>, ty |-> <<[off |-> 3600, dst |-> 0]>>, lp |-> <<>>],
                    [tab |-> <<67, 69, 84, 0>>, idx |-> <<0>>, isstd |-> <<>>, isut |-> <<>>, footer |-> <<>>])
BadFile == <<71, 65, 82, 66, 65, 71, 69>>        \* readable, but not TZif at all (no magic)
Values == { <<>>, LocaltimeName, <<58, 65>>, <<65>>, <<47, 120, 47, 65>>, <<58, 47, 120, 47, 65>>, <<32, 65, 32>>,
            <<85, 84, 67, 48>>, <<32, 85, 84, 67, 48, 32>>, <<58, 85, 84, 67, 48>>, <<58>>, <<58, 58, 65>>,
            <<69, 83, 84, 53, 69, 68, 84, 44, 77, 51, 46, 50, 46, 48, 44, 77, 49, 49, 46, 49, 46, 48>>, <<66, 97, 100>>,
            <<108, 111, 99, 97, 108, 116, 105, 109, 101, 32>>, <<65, 47, 66>>,
            <<58>> \o LocaltimeName }        \* ":localtime" is a relative file name, not /etc/localtime
DirLists == {<<>>} \cup {<<DirNames[i]>> : i \in 1..3} \cup {<<DirNames[i], DirNames[j]>> : i \in 1..3, j \in 1..3}
            \cup (IF MaxDirs >= 3 THEN {<<DirNames[1], DirNames[2], DirNames[3]>>, <<DirNames[3], DirNames[1], DirNames[2]>>, <<DirNames[2], DirNames[2], DirNames[1]>>} ELSE {})
\* every path the value could possibly make the library open under any reading (trimmed or not, with or without the colon)
Stems(s) == {s, TrimWs(s)} \cup (IF s # <<>> /\ s[1] = Colon THEN {Tail(s), s} ELSE {<<Colon>> \o s})
CandPaths(s, dirs) == {EtcLocaltime} \cup UNION {{Paths(st, dirs)[i] : i \in 1..Len(Paths(st, dirs))} : st \in Stems(s)} \cup Stems(s)
Contents == {"absent", "valid", "bad", "unreadable"}
Init == vPh = 0 /\ vS \in Values /\ vDirs \in DirLists /\ vVfs = <<>>
Next == /\ vPh = 0 /\ vPh' = 1 /\ UNCHANGED <<vS, vDirs>>
        /\ LET plan == Paths(IF vS # <<>> /\ vS[1] = Colon THEN Tail(vS) ELSE vS, vDirs)
               main == IF vS = LocaltimeName THEN <<EtcLocaltime>> ELSE plan
               others == CandPaths(vS, vDirs) \ {main[i] : i \in 1..Len(main)}
           IN \E asg \in [1..Len(main) -> Contents] : \E decoy \in {"absent", "valid"} :
                vVfs' = SelectSeq([i \in 1..Len(main) |-> <<main[i], asg[i]>>], LAMBDA e : e[2] # "absent")
                        \o (IF decoy = "valid" THEN SetToSeq({<<p, "valid">> : p \in others}) ELSE <<>>)
Spec == Init /\ [][Next]_vars
\* wire form of the file system
WireVfs == [i \in 1..Len(vVfs) |-> <<vVfs[i][1], IF vVfs[i][2] = "valid" THEN ValidFile ELSE IF vVfs[i][2] = "bad" THEN BadFile ELSE Unreadable>>]
R == Resolve(vS, vDirs, WireVfs)
Theorems == vPh = 1 =>
  LET isColon == vS # <<>> /\ vS[1] = Colon
      plan == IF vS = <<>> THEN <<>> ELSE IF vS = LocaltimeName THEN <<EtcLocaltime>> ELSE Paths(IF isColon THEN Tail(vS) ELSE vS, vDirs)
  IN /\ \E n \in 0..Len(plan) : R.reads = SubSeq(plan, 1, n)                                   \* requests are a prefix of the plan
     /\ \A i \in 1..(Len(R.reads) - 1) : ~IsReadable(WireVfs, R.reads[i])                     \* nothing is requested after a readable file
     /\ ((\E i \in 1..Len(plan) : IsReadable(WireVfs, plan[i])) => R.out.kind \in {"zone", "decode"} /\ IsReadable(WireVfs, R.reads[Len(R.reads)]))
     /\ ((isColon \/ vS = LocaltimeName) /\ (\A i \in 1..Len(plan) : ~IsReadable(WireVfs, plan[i])) => R.out.kind = "io")
     /\ (vS = <<>> => R.reads = <<>> /\ R.out.kind = "refused")
Emit == (EmitVec /\ vPh = 1) => PrintT(<<"VEC", ToJson([op |-> "resolve", a |-> [s |-> vS, dirs |-> vDirs, vfs |-> WireVfs, via |-> "posix"], g |-> 1])>>)
Inv == Theorems /\ Emit
=============================================================================
