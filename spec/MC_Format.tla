----------------------------- MODULE MC_Format -----------------------------
(* C18: Read(Render(x)) = x on a corner grid (unambiguity), shape of the text; emits render vectors. *)
EXTENDS Format, TLC, Json
CONSTANTS EmitVec
VARIABLES vPh, vF, vOff
vars == <<vPh, vF, vOff>>
I32MinC == -2147483647 - 1
YearsC == {I32MinC, -2147483647, -10000, -9999, -1000, -1, 0, 1, 9, 10, 99, 100, 999, 1000, 2000, 9999, 10000, 2147483647}
DatesC == {<<1, 1>>, <<2, 28>>, <<12, 31>>, <<10, 9>>, <<9, 10>>}
TimesC == {<<0, 0, 0>>, <<23, 59, 59>>, <<23, 59, 60>>, <<9, 5, 1>>, <<10, 10, 10>>}
NsC == {0, 1, 999999999, 100000000, 10, 123456789}
OffsC == {0, 1, -1, 59, -59, 60, -60, 61, -61, 3599, -3599, 3600, -3600, 3601, -3601, 35999, -35999, 36000, 359999, -359999, 360000, -360000,
          86399, 86400, -86400, 2147483647, -2147483647, 19800, -12600, 45900}
Init == vPh = 0 /\ vF = <<>> /\ vOff \in OffsC
Next == /\ vPh = 0 /\ vPh' = 1 /\ vOff' = vOff
        /\ \E yy \in YearsC, dt \in DatesC, tm \in TimesC, nn \in NsC : vF' = [y |-> yy, mo |-> dt[1], d |-> dt[2], h |-> tm[1], mi |-> tm[2], s |-> tm[3], ns |-> nn]
Spec == Init /\ [][Next]_vars
Text == Render(vF.y, vF.mo, vF.d, vF.h, vF.mi, vF.s, vF.ns, vOff)
RoundTrip == vPh = 1 =>
  /\ Read(Text) = [y |-> vF.y, mo |-> vF.mo, d |-> vF.d, h |-> vF.h, mi |-> vF.mi, s |-> vF.s, ns |-> vF.ns, off |-> vOff]
  /\ WellShaped(Text, vOff)
\* vectors: via "dtnew" needs a constructible date-time; DateTime::new refuses instants out of range, so only years inside
Constructible == vF.y > I32MinC + 1 /\ vF.y < 2147483646
Emit == (EmitVec /\ vPh = 1 /\ Constructible) =>
  PrintT(<<"VEC", ToJson([op |-> "render", a |-> [y |-> vF.y, mo |-> vF.mo, d |-> vF.d, h |-> vF.h, mi |-> vF.mi, s |-> vF.s, ns |-> vF.ns, off |-> vOff, via |-> "dtnew"],
                          x |-> {[ok |-> [text |-> Text, dt |-> DtOfFields(vF.y, vF.mo, vF.d, vF.h, vF.mi, vF.s, vF.ns, [off |-> vOff, dst |-> 0, des |-> <<>>])]]}])>>)
Inv == RoundTrip /\ Emit
=============================================================================
