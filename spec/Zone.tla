-------------------------------- MODULE Zone --------------------------------
(***************************************************************************)
(* Time zones: validity (C13), leap-second scales (C12), the local time    *)
(* type in force at an instant (C03).                                      *)
(*  zone == [tr  |-> Seq([t |-> CDS leap-count time, ix |-> 0-based type]),*)
(*           ty  |-> Seq([off, dst, des]),                                 *)
(*           lp  |-> Seq([r |-> CDS leap-count time, c |-> correction]),   *)
(*           rule|-> [k |-> "none"] | [k |-> "fixed", t] | [k |-> "alt",..]*)
(*           sum |-> RuleSummary of an "alt" rule (computed once)]         *)
(***************************************************************************)
EXTENDS Rule

\* ---- C12: the two time scales, from the physical meaning of a leap record ----
\* Record i = (R_i, c_i), c_0 = 0.  c_i = c_{i-1}+1 inserts a second: count R_i is 23:59:60 and shares the UTC value of
\* count R_i + 1.  c_i = c_{i-1}-1 deletes one: the UTC value R_i - c_{i-1} never occurs and count R_i is the second after it.
PrevCorr(lp, i) == IF i = 1 THEN 0 ELSE lp[i - 1].c
Inserted(lp, i) == lp[i].c > PrevCorr(lp, i)
KAtUnix(lp, u) == Cardinality({i \in 1..Len(lp) : CLe(lp[i].r, CAddSec(u, PrevCorr(lp, i)))})
KAtLeap(lp, L) == Cardinality({i \in 1..Len(lp) : IF Inserted(lp, i) THEN CLt(lp[i].r, L) ELSE CLe(lp[i].r, L)})
CorrOf(lp, k) == IF k = 0 THEN 0 ELSE lp[k].c
ToLeap(lp, u) == CAddSec(u, CorrOf(lp, KAtUnix(lp, u)))
ToUnix(lp, L) == CAddSec(L, -CorrOf(lp, KAtLeap(lp, L)))
Deleted(lp, u) == \E i \in 1..Len(lp) : ~Inserted(lp, i) /\ u = CAddSec(lp[i].r, -PrevCorr(lp, i))
\* an instant next to a deleted second of the table (known finding F1 lives exactly there)
AtNegativeLeap(lp, L) == \E i \in 1..Len(lp) : ~Inserted(lp, i) /\ L = lp[i].r

\* ---- construction from logged arguments ----
MkZone(a) ==
  [tr |-> [i \in 1..Len(a.tr) |-> [t |-> WToCDS(a.tr[i][1]), ix |-> a.tr[i][2]]],
   ty |-> a.ty,
   lp |-> [i \in 1..Len(a.lp) |-> [r |-> WToCDS(a.lp[i][1]), c |-> a.lp[i][2]]],
   rule |-> a.rule,
   sum |-> IF a.rule.k = "alt" THEN RuleSummary(a.rule) ELSE NoSummary]
UtcZone == [tr |-> <<>>, ty |-> <<UtcType>>, lp |-> <<>>, rule |-> [k |-> "none"], sum |-> NoSummary]
NTr(z) == Len(z.tr)
LastT(z) == z.tr[NTr(z)].t
TypeOfTr(z, i) == z.ty[z.tr[i].ix + 1]

\* ---- C03: type in force ----
\* set of admissible types at UTC instant u; {} means "no local time type available" unless the rule is out of range
TableTypeAtLeap(z, L) ==
  LET S == {i \in 1..NTr(z) : CLe(z.tr[i].t, L)} IN
  IF S = {} THEN z.ty[1] ELSE TypeOfTr(z, CHOOSE i \in S : \A j \in S : j <= i)
UsesRule(z, u) == NTr(z) = 0 \/ CLe(LastT(z), ToLeap(z.lp, u))
\* outcome: [types |-> set, err |-> set of error kinds]
TypeAt(z, u) ==
  IF NTr(z) = 0 /\ z.rule.k = "none" THEN [types |-> {z.ty[1]}, err |-> {}]
  ELSE IF UsesRule(z, u) THEN
       (IF z.rule.k = "none" THEN [types |-> {}, err |-> {"NoAvailableLocalTimeType"}]
        ELSE LET T == RuleTypesAt(z.rule, z.sum, u) IN IF T = {} THEN [types |-> {}, err |-> {"OutOfRange"}] ELSE [types |-> T, err |-> {}])
  ELSE [types |-> {TableTypeAtLeap(z, ToLeap(z.lp, u))}, err |-> {}]
\* i64 arithmetic on the leap table can only overflow within a few thousand seconds of the i64 ends
I64LoCDS == WToCDS(WMinI64)
I64HiCDS == WToCDS(WMaxI64)
\* (and only when there is a table to compare with: a zone without transitions never converts the instant)
NearI64Edge(z, u) == Len(z.lp) > 0 /\ NTr(z) > 0 /\ (CLt(u, CAddSec(I64LoCDS, 100000)) \/ CLt(CAddSec(I64HiCDS, -100000), u))
Lookup(z, u) == LET ta == TypeAt(z, u) IN Out(ta.types, ta.err \cup (IF NearI64Edge(z, u) THEN {"OutOfRange"} ELSE {}))
\* localtime: zoned date-time of an instant
Localtime(z, u, ns) ==
  LET ta == TypeAt(z, u)
      outs == {FromLocal(u, ns, ty) : ty \in ta.types}
  IN Out(UNION {o.ok : o \in outs}, ta.err \cup UNION {o.err : o \in outs} \cup (IF NearI64Edge(z, u) THEN {"OutOfRange"} ELSE {}))

\* ---- C13: validity ----
ValidDesignation(des) == des = <<>> \/ (Len(des) \in 3..7 /\ \A i \in 1..Len(des) :
                            des[i] \in (48..57) \cup (65..90) \cup (97..122) \cup {43, 45})
TypeErrs(off, des, nodes) ==
     (IF off = I32Min THEN {"LocalTimeType.InvalidUtcOffset"} ELSE {})
  \cup (IF ~nodes /\ Len(des) \notin 3..7 THEN {"LocalTimeType.InvalidTimeZoneDesignationLength"} ELSE {})
  \cup (IF ~nodes /\ \E i \in 1..Len(des) : des[i] \notin (48..57) \cup (65..90) \cup (97..122) \cup {43, 45}
        THEN {"LocalTimeType.InvalidTimeZoneDesignationChar"} ELSE {})
StepOne(a, b) == (b < I32Max /\ a = b + 1) \/ (b > I32Min /\ a = b - 1)          \* |a - b| = 1 without overflow
MinLeapSpacing == 2419199                                                        \* 28 days minus one second
EpochCDS == WToCDS(WZero)
LeapTableOK(lp) ==
  lp = <<>> \/ (/\ CLe(EpochCDS, lp[1].r) /\ lp[1].c \in {1, -1}
                /\ \A i \in 1..(Len(lp) - 1) : CLe(CAddSec(lp[i].r, MinLeapSpacing), lp[i + 1].r) /\ StepOne(lp[i + 1].c, lp[i].c))
ZoneErrs14(z) ==
     (IF z.ty = <<>> THEN {"TimeZone.NoLocalTimeType"} ELSE {})
  \cup (IF \E i \in 1..NTr(z) : z.tr[i].ix >= Len(z.ty) THEN {"TimeZone.InvalidLocalTimeTypeIndex"} ELSE {})
  \cup (IF \E i \in 1..(NTr(z) - 1) : ~CLt(z.tr[i].t, z.tr[i + 1].t) THEN {"TimeZone.InvalidTransition"} ELSE {})
  \cup (IF ~LeapTableOK(z.lp) THEN {"TimeZone.InvalidLeapSecond"} ELSE {})
\* the trailing rule must prescribe, at the last transition's instant, exactly the last transition's type
RuleAgrees(z) ==
  LET u == ToUnix(z.lp, LastT(z)) T == RuleTypesAt(z.rule, z.sum, u) IN
  IF T = {} THEN {"OutOfRange", "TimeZone.InconsistentExtraRule"}
  ELSE IF TypeOfTr(z, NTr(z)) \in T THEN (IF Cardinality(T) = 1 THEN {} ELSE {"ok-or", "TimeZone.InconsistentExtraRule"})
  ELSE {"TimeZone.InconsistentExtraRule"}
\* A malformed leap table as the zone's ONLY defect: the instant of the last transition is then not defined, and the trailing-rule
\* clause can be blamed only if it fails under every reading of that instant (the count itself shifted by at most the largest
\* correction of the table): if the rule prescribes the last transition's type at SOME reading, the specific error is the leap table's.
SmallCorr(lp) == \A i \in 1..Len(lp) : lp[i].c > -100000 /\ lp[i].c < 100000
AbsC(c) == IF c < 0 THEN -c ELSE c
MaxAbsCorr(lp) == IF lp = <<>> THEN 0 ELSE LET S == {AbsC(lp[i].c) : i \in 1..Len(lp)} IN CHOOSE m \in S : \A x \in S : x <= m
RuleAgreesSomewhere(z) ==
  LET u0 == LastT(z) W == 2 + MaxAbsCorr(z.lp)
      lo == CAddSec(u0, -W) hi == CAddSec(u0, W)
      bs == IF z.rule.k # "alt" THEN {}
            ELSE {g \in ({RS(z.rule, y) : y \in Years5(u0)} \cup {RE(z.rule, y) : y \in Years5(u0)}) : CLe(lo, g) /\ CLe(g, hi)}
      cands == {lo, hi} \cup bs \cup {CAddSec(g, -1) : g \in bs}
  IN \E u \in cands : TypeOfTr(z, NTr(z)) \in RuleTypesAt(z.rule, z.sum, u)
LeapOnlyDefect(z) == ZoneErrs14(z) = {"TimeZone.InvalidLeapSecond"} /\ SmallCorr(z.lp) /\ z.rule.k # "none" /\ NTr(z) > 0
                     /\ ~CLe(LastT(z), CAddSec(I64LoCDS, 200000)) /\ ~CLe(CAddSec(I64HiCDS, -200000), LastT(z))
\* outcome: set of admissible error kinds; {} = must be accepted; "ok-or" = acceptance also admissible
ZoneVerdict(z) ==
  LET e == ZoneErrs14(z) hasBoth == z.rule.k # "none" /\ NTr(z) > 0 IN
  IF LeapOnlyDefect(z) /\ RuleAgreesSomewhere(z) THEN e
  ELSE IF e # {} THEN e \cup (IF hasBoth THEN {"TimeZone.InconsistentExtraRule", "OutOfRange"} ELSE {})
  ELSE IF ~hasBoth THEN {}
  ELSE LET ra == RuleAgrees(z) IN
       IF CLe(LastT(z), CAddSec(I64LoCDS, 100000)) \/ CLe(CAddSec(I64HiCDS, -100000), LastT(z)) \/ ~InRange(ToUnix(z.lp, LastT(z)))
       THEN (IF ra = {} THEN {"ok-or", "OutOfRange"} ELSE ra \cup {"OutOfRange"}) ELSE ra
=============================================================================
