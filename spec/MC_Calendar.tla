---------------------------- MODULE MC_Calendar ----------------------------
(***************************************************************************)
(* Spec-level model checking of Cal.tla / DateTime.tla (C01, C02, C14):    *)
(* walks every day of one 400-year cycle with the *axiomatic* successor-   *)
(* day relation (400 parallel chains, one per year, stitched by YearEnd)   *)
(* and checks that the arithmetic definitions (bracket CHOOSE, tables,     *)
(* wide conversions) agree with it.  With EmitVec it also prints one       *)
(* spec -> impl vector per (day, cycle, second-of-day) selected.           *)
(***************************************************************************)
EXTENDS DateTime, TLC, Json
CONSTANTS Years,       \* years-in-cycle whose chains are walked (0..399 = the whole cycle)
          EmitVec,     \* BOOLEAN
          Cycles,      \* cycle indices vectors are emitted for
          Secs,        \* seconds of day vectors are emitted for
          Mod, Rem     \* emit only days n with n % Mod = Rem
VARIABLES n, y, mo, d          \* n = day in cycle; (y, mo, d) = civil date by the axioms, y = year in cycle
vars == <<n, y, mo, d>>
CyclesQuick == {-5368710, 4, 5, 5368709}
CyclesThorough == {-5368710, -5368709, -1, 0, 4, 5, 5368708, 5368709}

\* axiom: the day after (y, mo, d)
NextDay(yy, mm, dd) == IF dd < DaysInMonth(IsLeap(yy), mm) THEN <<yy, mm, dd + 1>>
                       ELSE IF mm < 12 THEN <<yy, mm + 1, 1>> ELSE <<yy + 1, 1, 1>>
Init == y \in Years /\ mo = 1 /\ d = 1 /\ n = DBYTab[y]
Next == /\ ~(mo = 12 /\ d = 31)
        /\ n' = n + 1
        /\ LET nd == NextDay(y, mo, d) IN y' = nd[1] /\ mo' = nd[2] /\ d' = nd[3]
Spec == Init /\ [][Next]_vars
\* the chain of year y ends exactly where the chain of year y+1 starts: the 400 chains are one walk
YearEnd == (mo = 12 /\ d = 31) => (n + 1 = DBYTab[y + 1] /\ NextDay(y, mo, d) = <<y + 1, 1, 1>>)

DayOK ==
  LET t == <<4, n, 0>> cv == Civil(t) IN
  /\ cv.yic = y /\ cv.mo = mo /\ cv.d = d                       \* arithmetic = axiomatic
  /\ cv.wd = (n + 6) % 7
  /\ cv.yd = n - DBYTab[y] /\ cv.yd < YearLen(IsLeap(y)) /\ ((mo = 1 /\ d = 1) <=> cv.yd = 0)
  /\ ValidDate(y, mo, d) /\ ~ValidDate(y, mo, DaysInMonth(IsLeap(y), mo) + 1)
  /\ UnixOf(1600 + y, mo, d, 0, 0, 0) = t                        \* timegm inverse of gmtime
  /\ UnixOf(1600 + y, mo, d, 23, 59, 60) = CAddDays(t, 1)        \* second 60 = second 0 of the next minute
  /\ UnixOf(-2147483600 + y, mo, d, 0, 0, 0) = <<-5368709, n, 0>>
  /\ WToCDS(CDSToW(t)) = t /\ WToCDS(CDSToW(<<-5368710, n, 86399>>)) = <<-5368710, n, 86399>>
  /\ (n > 0 => CLt(<<4, n - 1, 86399>>, t))                      \* strictly monotone
  /\ DtInv(DtRec(t, 7, [off |-> -86399, dst |-> 0, des |-> <<>>]))
  /\ DtInv(DtRec(<<5, n, 86399>>, 0, [off |-> 2147483647, dst |-> 1, des |-> <<65, 66, 67>>]))
  /\ UdtInv(UdtRec(<<3, n, 3661>>, 999999999))
  /\ UdtInv(UdtOfFields(1600 + y, mo, d, 23, 59, 60, 5))

Hms(s) == <<s \div 3600, (s % 3600) \div 60, s % 60>>
GmVec(c, s, via) ==
  LET t == <<c, n, s>> a == [t |-> CDSToW(t), ns |-> 0, via |-> via]
      out == IF via = "utc" THEN Gmtime(t, 0) ELSE FromLocal(t, 0, UtcType)
  IN [op |-> "gmtime", a |-> a, x |-> {[ok |-> v] : v \in out.ok} \cup {[err |-> k] : k \in out.err}]
TgVec(c, s, dd, via) ==        \* dd = day offset: 0 = this day, 1 = the day after the last of the month (must be refused)
  LET yy == YInt(c, y) hms == IF s = 86400 THEN <<23, 59, 60>> ELSE Hms(s)
      a == [y |-> yy, mo |-> mo, d |-> d + dd, h |-> hms[1], mi |-> hms[2], s |-> hms[3], ns |-> 1, via |-> via]
      out == IF via = "utc" THEN Timegm(a.y, a.mo, a.d, a.h, a.mi, a.s, a.ns) ELSE NewDt(a.y, a.mo, a.d, a.h, a.mi, a.s, a.ns, UtcType)
  IN [op |-> "timegm", a |-> a, x |-> {[ok |-> v] : v \in out.ok} \cup {[err |-> k] : k \in out.err}]
Emit == (EmitVec /\ n % Mod = Rem) =>
          \A c \in Cycles : YearFitsI32(c, y) =>
            /\ \A s \in Secs : /\ PrintT(<<"VEC", ToJson(GmVec(c, s, IF s % 2 = 0 THEN "utc" ELSE "dt"))>>)
                               /\ PrintT(<<"VEC", ToJson(TgVec(c, s, 0, IF s % 2 = 0 THEN "dt" ELSE "utc"))>>)
            /\ PrintT(<<"VEC", ToJson(TgVec(c, 86400, 0, "utc"))>>)
            /\ (d = DaysInMonth(IsLeap(y), mo) => PrintT(<<"VEC", ToJson(TgVec(c, 0, 1, "utc"))>>))
            /\ (d = 1 => PrintT(<<"VEC", ToJson(TgVec(c, 0, -1, "dt"))>>))
Consts ==
  /\ CDSToW(MinT) = MinTW /\ CDSToW(MaxT) = MaxTW
  /\ InRange(MinT) /\ InRange(MaxT) /\ ~InRange(CAddSec(MinT, -1)) /\ ~InRange(CAddSec(MaxT, 1))
  /\ LET a == Civil(MinT) b == Civil(MaxT) IN
       /\ YInt(a.c, a.yic) = -2147483647 - 1 /\ a.mo = 1 /\ a.d = 1 /\ a.h = 0 /\ a.mi = 0 /\ a.s = 0
       /\ YInt(b.c, b.yic) = 2147483647 /\ b.mo = 12 /\ b.d = 31 /\ b.h = 23 /\ b.mi = 59 /\ b.s = 59
  /\ WToCDS(WZero) = <<4, DBYTab[370], 0>> /\ Civil(WToCDS(WZero)).wd = 4      \* 1970-01-01, a Thursday
  /\ WToCDS(WMinI64)[1] < -5368710 /\ WToCDS(WMaxI64)[1] > 5368709
  /\ Timegm(2147483647, 12, 31, 23, 59, 60, 0).ok = {} /\ Timegm(2147483647, 12, 31, 23, 59, 59, 0).ok # {}
  /\ NewDt(2147483647, 12, 31, 23, 59, 60, 0, UtcType).ok = {}
  /\ \A k \in 0..399 : IsLeap(k) = (DBYTab[k + 1] - DBYTab[k] = 366)
Inv == DayOK /\ YearEnd /\ Emit /\ (n = 0 => Consts)
=============================================================================
