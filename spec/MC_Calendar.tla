---------------------------- MODULE MC_Calendar ----------------------------
(***************************************************************************)
(* Spec-level model checking of Cal.tla / DateTime.tla (C01, C02, C14):    *)
(* walks every day of one 400-year cycle with the *axiomatic* successor-   *)
(* day relation (400 parallel chains, one per year, stitched by YearEnd)   *)
(* and checks that the arithmetic definitions (bracket CHOOSE, tables,     *)
(* wide conversions) agree with it.  With EmitVec it also prints one       *)
(* spec -> impl vector per (day, cycle, second-of-day) selected.           *)
(***************************************************************************)
EXTENDS DateTime, AlgoCal, TLC, Json
CONSTANTS Years,       \* years-in-cycle whose chains are walked (0..399 = the whole cycle)
          EmitVec,     \* BOOLEAN
          Cycles,      \* cycle indices vectors are emitted for
          Secs,        \* seconds of day vectors are emitted for
          Mod, Rem     \* emit only days vN with vN % Mod = Rem
VARIABLES vN, vY, vMo, vD          \* vN = day in cycle; (vY, vMo, vD) = civil date by the axioms, vY = year in cycle
vars == <<vN, vY, vMo, vD>>
CyclesQuick == {-5368710, -1, 0, 4, 5, 5368709}          \* range ends, years -400..399 (negative years, year 0), 1600..2399
CyclesThorough == {-5368710, -1, 0, 4, 5, 5368709}

\* axiom: the day after (vY, vMo, vD)
NextDay(yy, mm, dd) == IF dd < DaysInMonth(IsLeap(yy), mm) THEN <<yy, mm, dd + 1>>
                       ELSE IF mm < 12 THEN <<yy, mm + 1, 1>> ELSE <<yy + 1, 1, 1>>
Init == vY \in Years /\ vMo = 1 /\ vD = 1 /\ vN = DBYTab[vY]
Next == /\ ~(vMo = 12 /\ vD = 31)
        /\ vN' = vN + 1
        /\ LET nd == NextDay(vY, vMo, vD) IN vY' = nd[1] /\ vMo' = nd[2] /\ vD' = nd[3]
Spec == Init /\ [][Next]_vars
\* the chain of year vY ends exactly where the chain of year vY+1 starts: the 400 chains are one walk
YearEnd == (vMo = 12 /\ vD = 31) => (vN + 1 = DBYTab[vY + 1] /\ NextDay(vY, vMo, vD) = <<vY + 1, 1, 1>>)

DayOK ==
  LET t == <<4, vN, 0>> cv == Civil(t) IN
  /\ cv.yic = vY /\ cv.mo = vMo /\ cv.d = vD                       \* arithmetic = axiomatic
  /\ cv.wd = (vN + 6) % 7
  /\ cv.yd = vN - DBYTab[vY] /\ cv.yd < YearLen(IsLeap(vY)) /\ ((vMo = 1 /\ vD = 1) <=> cv.yd = 0)
  /\ ValidDate(vY, vMo, vD) /\ ~ValidDate(vY, vMo, DaysInMonth(IsLeap(vY), vMo) + 1)
  /\ UnixOf(1600 + vY, vMo, vD, 0, 0, 0) = t                        \* timegm inverse of gmtime
  /\ UnixOf(1600 + vY, vMo, vD, 23, 59, 60) = CAddDays(t, 1)        \* second 60 = second 0 of the next minute
  /\ UnixOf(-2147483600 + vY, vMo, vD, 0, 0, 0) = <<-5368709, vN, 0>>
  /\ WToCDS(CDSToW(t)) = t /\ WToCDS(CDSToW(<<-5368710, vN, 86399>>)) = <<-5368710, vN, 86399>>
  /\ (vN > 0 => CLt(<<4, vN - 1, 86399>>, t))                      \* strictly monotone
  /\ DtInv(DtRec(t, 7, [off |-> -86399, dst |-> 0, des |-> <<>>]))
  /\ DtInv(DtRec(<<5, vN, 86399>>, 0, [off |-> 2147483647, dst |-> 1, des |-> <<65, 66, 67>>]))
  /\ UdtInv(UdtRec(<<3, vN, 3661>>, 999999999))
  /\ UdtInv(UdtOfFields(1600 + vY, vMo, vD, 23, 59, 60, 5))

\* ---- the algorithm layer (AlgoCal.tla: the code's division cascade, year formulas, week day, year day) refines the axioms ----
\* day vN of the cycle counted from 0000-01-01, seen from the code's origin 2000-03-01: March 1st of year 0 is day 60 of the cycle,
\* and January / February of year 0 belong to the previous March-based cycle
AlgoDay(clamp) ==
  LET rd == (vN - 60) % DaysPerCycle
      back == IF vN >= 60 THEN 0 ELSE -1
      r == ACascade(rd, clamp)
  IN r.yoff + 400 * back = vY /\ r.mo = vMo /\ r.d = vD
AlgoCalOK ==
  /\ AlgoDay(TRUE)
  /\ \A base \in {-800, -400, 0, 1600, 2000} :         \* negative years, year 0, both branches of the 1970 split (1600..1999), after 2000
       LET yy == base + vY
           days == ((base \div 400) - 4) * DaysPerCycle + vN - DBYTab[370]          \* days from 1970-01-01 = (cycle 4, year-in-cycle 370)
       IN /\ AIsLeap(yy) = IsLeap(vY)
          /\ ADaysSinceEpoch(yy, vMo, vD) = days
          /\ ((vMo = 12 /\ vD = 31) => ADaysSinceEpoch(yy, 12, 32) = days + 1)        \* "December 32nd", used by the rule evaluator
          /\ AWeekDay(yy, vMo, vD) = (vN + 6) % 7
          /\ AYearDay(yy, vMo, vD) = vN - DBYTab[vY]
\* the two floor fix-ups of from_timespec, and the time-of-day split, on an interval around zero
AlgoSplitOK ==
  /\ \A a \in -200000..200000 : AFloorSplit(a, SecPerDay) = <<a \div SecPerDay, a % SecPerDay>>
  /\ \A a \in -300000..300000 : AFloorSplit(a, DaysPer400) = <<a \div DaysPer400, a % DaysPer400>>
  /\ \A rs \in 0..(SecPerDay - 1) : ATimeOfDay(rs) = <<rs \div 3600, (rs % 3600) \div 60, rs % 60>>
\* witness (required to be VIOLATED): without its clamps the cascade is wrong on the last day of a century / 4-year / 400-year block
W_NoClamp == AlgoDay(FALSE)

Hms(s) == <<s \div 3600, (s % 3600) \div 60, s % 60>>
GmVec(c, s, via) ==
  LET t == <<c, vN, s>> a == [t |-> CDSToW(t), ns |-> 0, via |-> via]
      out == IF via = "utc" THEN Gmtime(t, 0) ELSE FromLocal(t, 0, UtcType)
  IN [op |-> "gmtime", a |-> a, x |-> {[ok |-> v] : v \in out.ok} \cup {[err |-> k] : k \in out.err}]
TgVec(c, s, dd, via) ==        \* dd = day offset: 0 = this day, 1 = the day after the last of the month (must be refused)
  LET yy == YInt(c, vY) hms == IF s = 86400 THEN <<23, 59, 60>> ELSE Hms(s)
      a == [y |-> yy, mo |-> vMo, d |-> vD + dd, h |-> hms[1], mi |-> hms[2], s |-> hms[3], ns |-> 1, via |-> via]
      out == IF via = "utc" THEN Timegm(a.y, a.mo, a.d, a.h, a.mi, a.s, a.ns) ELSE NewDt(a.y, a.mo, a.d, a.h, a.mi, a.s, a.ns, UtcType)
  IN [op |-> "timegm", a |-> a, x |-> {[ok |-> v] : v \in out.ok} \cup {[err |-> k] : k \in out.err}]
Emit == (EmitVec /\ vN % Mod = Rem) =>
          \A c \in Cycles : YearFitsI32(c, vY) =>
            /\ \A s \in Secs : /\ PrintT(<<"VEC", ToJson(GmVec(c, s, IF s % 2 = 0 THEN "utc" ELSE "dt"))>>)
                               /\ PrintT(<<"VEC", ToJson(TgVec(c, s, 0, IF s % 2 = 0 THEN "dt" ELSE "utc"))>>)
            /\ PrintT(<<"VEC", ToJson(TgVec(c, 86400, 0, "utc"))>>)
            /\ (vD = DaysInMonth(IsLeap(vY), vMo) => PrintT(<<"VEC", ToJson(TgVec(c, 0, 1, "utc"))>>))
            /\ (vD = 1 => PrintT(<<"VEC", ToJson(TgVec(c, 0, -1, "dt"))>>))
Consts ==
  /\ CDSToW(MinT) = MinTW /\ CDSToW(MaxT) = MaxTW
  /\ InRange(MinT) /\ InRange(MaxT) /\ ~InRange(CAddSec(MinT, -1)) /\ ~InRange(CAddSec(MaxT, 1))
  /\ LET a == Civil(MinT) b == Civil(MaxT) IN
       /\ YInt(a.c, a.yic) = -2147483647 - 1 /\ a.mo = 1 /\ a.d = 1 /\ a.h = 0 /\ a.mi = 0 /\ a.s = 0
       /\ YInt(b.c, b.yic) = 2147483647 /\ b.mo = 12 /\ b.d = 31 /\ b.h = 23 /\ b.mi = 59 /\ b.s = 59
  /\ WToCDS(WZero) = <<4, DBYTab[370], 0>> /\ Civil(WToCDS(WZero)).wd = 4      \* 1970-01-01, a Thursday
  /\ WToCDS(WMinI64)[1] < -5368710 /\ WToCDS(WMaxI64)[1] > 5368709
  /\ Timegm(2147483647, 12, 31, 23, 59, 60, 0).ok = {} /\ Timegm(2147483647, 12, 31, 23, 59, 59, 0).ok # {}
  /\ NewDt(2147483647, 12, 31, 23, 59, 60, 0, UtcType).ok = {}
  /\ \A k \in 0..399 : IsLeap(k) = (DBYTab[k + 1] - DBYTab[k] = 366)
Inv == DayOK /\ AlgoCalOK /\ YearEnd /\ Emit /\ (vN = 0 => Consts /\ AlgoSplitOK)
=============================================================================
