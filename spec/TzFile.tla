------------------------------- MODULE TzFile -------------------------------
(***************************************************************************)
(* C08: RFC 8536 TZif files.  Encode writes a zone byte for byte (header,  *)
(* blocks in RFC order, footer); Decode is an explicit total function on   *)
(* byte sequences, written as the reader the RFC describes, ending in the  *)
(* zone validity of C13.  Which error a malformed file gets is not part of *)
(* C08: the outcome is [ok |-> FALSE] or [ok |-> TRUE, zone |-> ...] with  *)
(* zone in the wire shape [tr, ty, lp, rule] (times as wide integers).     *)
(***************************************************************************)
EXTENDS TzString, Find

Magic == <<84, 90, 105, 102>>
Sub(b, p, n) == SubSeq(b, p, p + n - 1)
\* unsigned 32-bit big-endian count at p; counts larger than the file can never be satisfied
CntBytes(b, p) == Sub(b, p, 4)
CntHuge(b, p) == b[p] >= 128
CntVal(b, p) == ((b[p] * 256 + b[p + 1]) * 256 + b[p + 2]) * 256 + b[p + 3]           \* only if ~CntHuge
CntTooBig(b, p) == CntHuge(b, p) \/ CntVal(b, p) > Len(b)
I32At(b, p) == (((IF b[p] >= 128 THEN b[p] - 256 ELSE b[p]) * 256 + b[p + 1]) * 256 + b[p + 2]) * 256 + b[p + 3]
\* signed 64-bit big-endian as a wide integer
TwoTo64 == <<0, 616, 551, 709, 73, 744, 446, 18>>      \* 18446744073709551616
RECURSIVE HornerW(_, _, _, _)
HornerW(b, p, n, acc) == IF n = 0 THEN acc ELSE HornerW(b, p + 1, n - 1, WAdd(WMulSmall(acc, 256), WInt(b[p])))
I64At(b, p) == LET u == HornerW(b, p, 8, WZero) IN IF b[p] >= 128 THEN WSub(u, TwoTo64) ELSE u
TimeAt(b, p, tsz) == IF tsz = 4 THEN WInt(I32At(b, p)) ELSE I64At(b, p)

\* header at position p: [ok, ver, isut, isstd, leap, time, type, char] (counts as Int; only meaningful when ok)
Header(b, p) ==
  IF Len(b) < p + 43 THEN [ok |-> FALSE]
  ELSE IF Sub(b, p, 4) # Magic \/ b[p + 4] \notin {0, 50, 51} THEN [ok |-> FALSE]
  ELSE LET q == p + 20 IN
       IF CntBytes(b, q + 16) = <<0, 0, 0, 0>> \/ CntBytes(b, q + 20) = <<0, 0, 0, 0>>                    \* typecnt, charcnt non-zero
          \/ (CntBytes(b, q) # <<0, 0, 0, 0>> /\ CntBytes(b, q) # CntBytes(b, q + 16))                     \* isutcnt in {0, typecnt}
          \/ (CntBytes(b, q + 4) # <<0, 0, 0, 0>> /\ CntBytes(b, q + 4) # CntBytes(b, q + 16))             \* isstdcnt in {0, typecnt}
       THEN [ok |-> FALSE]
       ELSE IF \E k \in 0..5 : CntTooBig(b, q + 4 * k) THEN [ok |-> FALSE]                                  \* blocks cannot fit
       ELSE [ok |-> TRUE, ver |-> b[p + 4], isut |-> CntVal(b, q), isstd |-> CntVal(b, q + 4), leap |-> CntVal(b, q + 8),
             time |-> CntVal(b, q + 12), type |-> CntVal(b, q + 16), char |-> CntVal(b, q + 20)]
BlockLen(h, tsz) == h.time * tsz + h.time + h.type * 6 + h.char + h.leap * (tsz + 4) + h.isstd + h.isut

\* designation: bytes from index idx up to the next NUL inside the designation table; <<>> = none; "bad" marker via ok flag
DesigAt(tab, idx) ==
  LET nuls == {j \in (idx + 1)..Len(tab) : tab[j] = 0} IN
  IF idx >= Len(tab) \/ nuls = {} THEN [ok |-> FALSE]
  ELSE [ok |-> TRUE, des |-> SubSeq(tab, idx + 1, (CHOOSE j \in nuls : \A q \in nuls : j <= q) - 1)]

\* data block at position p (1-based), header h, time size tsz; footer = <<>> or the bytes after the block (v2+)
Body(b, p, h, tsz, hasFooter, ext) ==
  LET pTimes == p
      pTypes == pTimes + h.time * tsz
      pTt == pTypes + h.time
      pChars == pTt + h.type * 6
      pLeaps == pChars + h.char
      pStd == pLeaps + h.leap * (tsz + 4)
      pUt == pStd + h.isstd
      pEnd == pUt + h.isut
      tab == Sub(b, pChars, h.char)
      tt(i) == pTt + 6 * (i - 1)
      desigs == [i \in 1..h.type |-> DesigAt(tab, b[tt(i) + 5])]
      typesOK == \A i \in 1..h.type :
                    /\ b[tt(i) + 4] \in {0, 1}
                    /\ desigs[i].ok
                    /\ TypeErrs(I32At(b, tt(i)), desigs[i].des, desigs[i].des = <<>>) = {}
      indOK == \A i \in 1..h.type :
                    LET sw == IF i <= h.isstd THEN b[pStd + i - 1] ELSE 0
                        ul == IF i <= h.isut THEN b[pUt + i - 1] ELSE 0
                    IN <<sw, ul>> \in {<<0, 0>>, <<1, 0>>, <<1, 1>>}
      footer == SubSeq(b, pEnd, Len(b))
      ftxt == TrimWs(footer)
      footOK == ~hasFooter \/ (/\ footer # <<>> /\ footer[1] = 10 /\ footer[Len(footer)] = 10
                               /\ \A i \in 1..Len(footer) : footer[i] < 128 /\ footer[i] # 0
                               /\ (ftxt # <<>> => ftxt[1] # 58))
      parsed == IF hasFooter /\ footOK /\ ftxt # <<>> THEN ParseTz(ftxt, ext) ELSE [ok |-> TRUE, rule |-> [k |-> "none"]]
  IN IF ~typesOK \/ ~indOK \/ ~footOK \/ ~parsed.ok THEN [ok |-> FALSE]
     ELSE LET zoneArgs ==
                [tr |-> [i \in 1..h.time |-> <<TimeAt(b, pTimes + tsz * (i - 1), tsz), b[pTypes + i - 1]>>],
                 ty |-> [i \in 1..h.type |-> [off |-> I32At(b, tt(i)), dst |-> b[tt(i) + 4], des |-> desigs[i].des]],
                 lp |-> [i \in 1..h.leap |-> <<TimeAt(b, pLeaps + (tsz + 4) * (i - 1), tsz), I32At(b, pLeaps + (tsz + 4) * (i - 1) + tsz)>>],
                 rule |-> parsed.rule]
              v == ZoneVerdict(MkZone(zoneArgs))
          IN IF v = {} THEN [ok |-> TRUE, zone |-> zoneArgs]
             ELSE IF "ok-or" \in v THEN [ok |-> TRUE, zone |-> zoneArgs, open |-> TRUE] ELSE [ok |-> FALSE]

Decode(b) ==
  LET h1 == Header(b, 1) IN
  IF ~h1.ok THEN [ok |-> FALSE]
  ELSE IF Len(b) < 44 + BlockLen(h1, 4) THEN [ok |-> FALSE]
  ELSE IF h1.ver = 0 THEN
       (IF Len(b) # 44 + BlockLen(h1, 4) THEN [ok |-> FALSE]          \* trailing bytes after a version-1 body
        ELSE Body(b, 45, h1, 4, FALSE, FALSE))
  ELSE LET p2 == 45 + BlockLen(h1, 4) h2 == Header(b, p2) IN
       IF ~h2.ok THEN [ok |-> FALSE]
       ELSE IF Len(b) < p2 + 43 + BlockLen(h2, 8) THEN [ok |-> FALSE]
       ELSE IF h2.ver # h1.ver THEN [ok |-> TRUE, unspecified |-> TRUE]      \* the two headers disagree on the version: left open
       ELSE Body(b, p2 + 44, h2, 8, TRUE, h2.ver = 51)

\* ---------------------------------------------------------------------------
\* an independent writer (for the model: small zones, small integers)
U32Bytes(nat) == <<(nat \div 16777216) % 256, (nat \div 65536) % 256, (nat \div 256) % 256, nat % 256>>
I32Bytes(int) == U32Bytes(int)                                  \* floor division makes this two's complement
I64BytesSmall(int) == (IF int < 0 THEN <<255, 255, 255, 255>> ELSE <<0, 0, 0, 0>>) \o I32Bytes(int)
RECURSIVE Flat(_)
Flat(ss) == IF ss = <<>> THEN <<>> ELSE Head(ss) \o Flat(Tail(ss))
\* lay == [ver, tab (designation table bytes), idx (per type: index into tab), isstd, isut (sequences, empty or one per type), footer (bytes)]
\* zone == [tr |-> Seq(<<time Int, ix>>), ty |-> Seq([off, dst]), lp |-> Seq(<<time Int, corr>>)]
HeaderBytes(ver, zone, lay) ==
  Magic \o <<ver>> \o [i \in 1..15 |-> 0] \o U32Bytes(Len(lay.isut)) \o U32Bytes(Len(lay.isstd)) \o U32Bytes(Len(zone.lp))
  \o U32Bytes(Len(zone.tr)) \o U32Bytes(Len(zone.ty)) \o U32Bytes(Len(lay.tab))
BlockBytes(zone, lay, tsz) ==
  LET T(int) == IF tsz = 4 THEN I32Bytes(int) ELSE I64BytesSmall(int) IN
  Flat([i \in 1..Len(zone.tr) |-> T(zone.tr[i][1])]) \o [i \in 1..Len(zone.tr) |-> zone.tr[i][2]]
  \o Flat([i \in 1..Len(zone.ty) |-> I32Bytes(zone.ty[i].off) \o <<zone.ty[i].dst, lay.idx[i]>>]) \o lay.tab
  \o Flat([i \in 1..Len(zone.lp) |-> T(zone.lp[i][1]) \o I32Bytes(zone.lp[i][2])]) \o lay.isstd \o lay.isut
\* v1: one block; v2/v3: a v1 block for zone1 (which a reader must ignore), then the 64-bit block and the footer
Encode(ver, zone1, lay1, zone, lay) ==
  IF ver = 0 THEN HeaderBytes(0, zone, lay) \o BlockBytes(zone, lay, 4)
  ELSE HeaderBytes(ver, zone1, lay1) \o BlockBytes(zone1, lay1, 4) \o HeaderBytes(ver, zone, lay) \o BlockBytes(zone, lay, 8) \o <<10>> \o lay.footer \o <<10>>
=============================================================================
