----------------------------- MODULE TzRsTrace -----------------------------
(***************************************************************************)
(* Trace specification: replays an ndjson log of real tz-rs API calls      *)
(* (one event per call: op, full arguments a, full observable result r)    *)
(* through the specification.  The client session has state: the current   *)
(* vZone and the search buffer.  Every event is judged against the set of   *)
(* outcomes the specification admits; a disagreeing event does not stop    *)
(* the replay: it is recorded in `vBad` with a cause tag, the state is      *)
(* re-synchronised from the logged outcome and validation goes on.         *)
(***************************************************************************)
EXTENDS Algo, Format, TzString, TzFile, Resolve, Json, IOUtils, TLC

Rec == ndJsonDeserialize(IOEnv.TRACE)
NRec == Len(Rec)

VARIABLES vL,      \* next event
          vZone,   \* current vZone of the session (UtcZone initially and after a refused construction)
          vBuf,    \* the client's search buffer (8 slots), persists from call to call
          vBad,    \* {<<index, tag>>}: disagreements
          vInfo,   \* {<<index, tag>>}: spec-computed facts about zones (used to recognise known findings)
          vRefOK   \* FALSE after a TZ value that the library refused: reference observations for it have nothing to be compared with
vars == <<vL, vZone, vBuf, vBad, vInfo, vRefOK>>

Has(r, k) == k \in DOMAIN r
EmptyBuf == [i \in 1..8 |-> <<>>]
\* tags for a logged result r against an outcome specification out
Judge(r, out) ==
  IF Has(r, "panic") THEN {"panic"}
  ELSE IF Has(r, "arg") THEN {"generator-error"}
  ELSE IF Has(r, "err") THEN (IF r.err \in out.err THEN {} ELSE IF out.err = {} THEN {"refused-but-must-succeed"} ELSE {"wrong-error"})
  ELSE IF Has(r, "ok") THEN (IF r.ok \in out.ok THEN {} ELSE IF out.ok = {} THEN {"accepted-but-must-fail"} ELSE {"wrong-value"})
  ELSE {"malformed-result"}
NoPanic(r) == IF Has(r, "panic") THEN {"panic"} ELSE IF Has(r, "arg") THEN {"generator-error"} ELSE {}
\* global invariant of every date-time observation inside an Ok result
OkDt(r, P(_)) == IF Has(r, "ok") THEN (IF P(r.ok) THEN {} ELSE {"C14-dtinv"}) ELSE {}
WithDt(r, out, isZoned) == Judge(r, out) \cup (IF isZoned THEN OkDt(r, DtInv) ELSE OkDt(r, UdtInv))

\* ---- C01, C02, C16 ----
VGmtime(e) ==
  LET t == WToCDS(e.a.t) IN
  IF e.a.via = "utc" THEN WithDt(e.r, Gmtime(t, e.a.ns), FALSE)
  ELSE WithDt(e.r, FromLocal(t, e.a.ns, UtcType), TRUE)
VTimegm(e) ==
  LET a == e.a IN
  IF a.via = "utc" THEN WithDt(e.r, Timegm(a.y, a.mo, a.d, a.h, a.mi, a.s, a.ns), FALSE)
  ELSE WithDt(e.r, NewDt(a.y, a.mo, a.d, a.h, a.mi, a.s, a.ns, UtcType), TRUE)
\* derived order on UTC date-times: for seconds < 60 it must be the order of (unix time, ns)
VUtcCmp(e) ==
  LET a == e.a.a b == e.a.b
      oa == Timegm(a.y, a.mo, a.d, a.h, a.mi, a.s, a.ns) ob == Timegm(b.y, b.mo, b.d, b.h, b.mi, b.s, b.ns)
  IN IF oa.ok = {} \/ ob.ok = {} THEN (IF Has(e.r, "err") THEN {} ELSE {"accepted-but-must-fail"})
     ELSE IF ~Has(e.r, "ok") THEN {"wrong-error"}
     ELSE LET ua == CDSToW(UnixOf(a.y, a.mo, a.d, a.h, a.mi, a.s)) ub == CDSToW(UnixOf(b.y, b.mo, b.d, b.h, b.mi, b.s))
              c == InstCmp(ua, a.ns, ub, b.ns)
          IN (IF e.r.ok.ua = ua /\ e.r.ok.ub = ub THEN {} ELSE {"wrong-value"})
             \cup (IF a.s < 60 /\ b.s < 60 /\ (e.r.ok.ord # c \/ e.r.ok.eq # (IF c = 0 THEN 1 ELSE 0)) THEN {"order-not-by-instant"} ELSE {})
VFromNanos(e) ==
  LET sp == Split(e.a.N) IN
  IF ~WFitsI64(sp.q) THEN Judge(e.r, OutErr("OutOfRange"))
  ELSE LET t == WToCDS(sp.q) IN
       IF e.a.via = "utc" THEN WithDt(e.r, Gmtime(t, sp.r), FALSE)
       ELSE IF e.a.via = "local" THEN WithDt(e.r, FromLocal(t, sp.r, e.a.type), TRUE)
       ELSE WithDt(e.r, Localtime(vZone, t, sp.r), TRUE)

\* ---- C13, C14 ----
VType(e) ==
  LET a == e.a errs == IF a.via = "new" THEN TypeErrs(a.off, a.des, a.nodes = 1) ELSE TypeErrs(a.off, <<>>, TRUE) IN
  IF errs # {} THEN Judge(e.r, Out({}, errs))
  ELSE Judge(e.r, OutOk([off |-> a.off, dst |-> IF a.via = "new" THEN a.dst ELSE 0, des |-> IF a.via = "new" /\ a.nodes = 0 THEN a.des ELSE <<>>]))
VNewDt(e) == LET a == e.a IN WithDt(e.r, NewDt(a.y, a.mo, a.d, a.h, a.mi, a.s, a.ns, a.type), TRUE)
VFromLocal(e) == WithDt(e.r, FromLocal(WToCDS(e.a.t), e.a.ns, e.a.type), TRUE)
VLocaltime(e) == WithDt(e.r, Localtime(vZone, WToCDS(e.a.u), e.a.ns), TRUE)
\* projection keeps (instant, ns) and re-derives fields and type from the target vZone
\* the source's instant: given, or denoted by UTC fields (second 60 = second 0 of the next minute)
ProjT(a) == IF Has(a, "y") THEN UnixOf(a.y, a.mo, a.d, a.h, a.mi, a.s) ELSE WToCDS(a.t)
VProject(e) ==
  LET t == ProjT(e.a) lt == Localtime(vZone, t, e.a.ns) IN
  IF Has(e.r, "ok") THEN
       (IF e.r.ok.dst \in lt.ok THEN {} ELSE IF lt.ok = {} THEN {"accepted-but-must-fail"} ELSE {"wrong-value"})
       \cup (IF e.r.ok.dst.u = e.r.ok.src.u /\ e.r.ok.dst.ns = e.r.ok.src.ns /\ e.r.ok.src.u = CDSToW(t) THEN {} ELSE {"C14-projection-changed-instant"})
       \cup (IF DtInv(e.r.ok.dst) THEN {} ELSE {"C14-dtinv"})
  ELSE IF Has(e.r, "err") /\ e.r.err = "Construct" THEN {}       \* the source date-time itself could not be built
  ELSE Judge(e.r, lt)
\* the instant of a comparison operand: given directly, or by fields and a local time type (second 60 = second 0 of the next minute)
OperandT(x) == IF Has(x, "y") THEN CDSToW(CAddSec(UnixOf(x.y, x.mo, x.d, x.h, x.mi, x.s), -x.type.off)) ELSE x.t
VDtCmp(e) ==
  IF ~Has(e.r, "ok") THEN NoPanic(e.r)
  ELSE LET c == InstCmp(OperandT(e.a.a), e.a.a.ns, OperandT(e.a.b), e.a.b.ns) IN
       IF e.r.ok.ord = c /\ e.r.ok.eq = (IF c = 0 THEN 1 ELSE 0) THEN {} ELSE {"C14-comparison-not-by-instant"}

\* ---- C11 ----
VRuleDay(e) == IF ValidRuleDay(e.a.d) THEN Judge(e.r, OutOk(e.a.d))
               ELSE Judge(e.r, Out({}, {"TransitionRule.InvalidRuleDayJulianDay", "TransitionRule.InvalidRuleDayMonth",
                                          "TransitionRule.InvalidRuleDayWeek", "TransitionRule.InvalidRuleDayWeekDay"}))
RuleDayErrs == {"TransitionRule.InvalidRuleDayJulianDay", "TransitionRule.InvalidRuleDayMonth", "TransitionRule.InvalidRuleDayWeek", "TransitionRule.InvalidRuleDayWeekDay"}
VRule(e) == IF ~ValidRuleDay(e.a.sd) \/ ~ValidRuleDay(e.a.ed) THEN Judge(e.r, Out({}, RuleDayErrs))       \* a day outside its range: no rule at all
            ELSE LET v == RuleVerdict(e.a) IN Judge(e.r, IF v.ok = {} THEN Out({}, v.err) ELSE OutOk(1))

\* ---- C13: vZone construction (both constructors are called by the harness; r.ref is the borrowed one's verdict) ----
ZoneInfo(z) ==
     (IF z.rule.k = "alt" /\ ~Interleaves(z.sum) THEN {"rule-does-not-interleave"} ELSE {})
  \cup (IF z.rule.k = "alt" /\ CoincidentSouth(z.sum) THEN {"coincident-south"} ELSE {})
  \cup (IF z.rule.k = "alt" /\ Degenerate(z.sum) THEN {"degenerate-rule"} ELSE {})
  \cup (IF \E i \in 1..Len(z.lp) : ~Inserted(z.lp, i) THEN {"negative-leap"} ELSE {})
VZone(e, z) ==
  LET v == ZoneVerdict(z) r == e.r
      rv == IF z.rule.k = "alt" THEN RuleVerdictS(z.rule, z.sum) ELSE OutOk(1) IN
  IF Has(r, "panic") THEN {"panic"} ELSE IF Has(r, "arg") THEN {"generator-error"}
  ELSE IF rv.ok = {} THEN (IF Has(r, "err") /\ r.err \in rv.err THEN {} ELSE {"C11-rule-accepted-but-must-fail"})   \* the rule itself cannot exist
  ELSE (IF Has(r, "ok")
        THEN (IF v = {} \/ "ok-or" \in v THEN {} ELSE {"C13-accepted-but-must-fail"})
             \cup (IF r.ok.ref = "ok" THEN {} ELSE {"C13-constructors-disagree"})
             \cup (IF r.ok.echo.tr = e.a.tr /\ r.ok.echo.ty = e.a.ty /\ r.ok.echo.lp = e.a.lp /\ r.ok.echo.rule = e.a.rule THEN {} ELSE {"C13-accessors-differ"})
             \cup (IF r.ok.eq = 1 THEN {} ELSE {"C13-owned-and-borrowed-zone-not-equal"})
        ELSE (IF v = {} THEN {"C13-refused-but-well-formed"} ELSE IF r.err \in v THEN {} ELSE {"C13-wrong-error"})
             \cup (IF r.ref = r.err THEN {} ELSE {"C13-constructors-disagree"}))

\* ---- C03, C04, C12 ----
VLookup(e) == Judge(e.r, Lookup(vZone, WToCDS(e.a.u)))

\* ---- C05, C06, C17 ----
VFind(e) == IF Has(e.r, "panic") THEN {"panic"} ELSE FindTags(vZone, e.a, e.a.ns, e.r)
VFindN(e) ==
  IF Has(e.r, "panic") THEN {"panic"}
  ELSE IF Has(e.r.res, "panic") \/ Has(e.r.full, "panic") THEN {"panic"}
  ELSE FindTags(vZone, e.a, e.a.ns, e.r.full) \cup FindNTags(vBuf, e.a.n, e.r)

\* ---- C05: localtime then search recovers the instant (whatever the zone's clock is there, specified or not) ----
DtFields(dt) == [y |-> dt.y, mo |-> dt.mo, d |-> dt.d, h |-> dt.h, mi |-> dt.mi, s |-> dt.s]
VRoundTrip(e) ==
  LET u == WToCDS(e.a.u) ns == e.a.ns lt == Localtime(vZone, u, ns) r == e.r IN
  IF Has(r, "panic") THEN {"panic"} ELSE IF Has(r, "arg") THEN {"generator-error"}
  ELSE IF Has(r, "err") /\ r.stage = "localtime" THEN Judge(r, lt)
  ELSE LET dt == IF Has(r, "ok") THEN r.ok.dt ELSE r.dt
           f == DtFields(dt)
           risky == FindRisky(vZone, f, UnixOf(f.y, f.mo, f.d, f.h, f.mi, f.s))
       IN (IF dt \in lt.ok THEN {} ELSE IF lt.ok = {} THEN {"accepted-but-must-fail"} ELSE {"wrong-value"})
          \cup (IF DtInv(dt) THEN {} ELSE {"C14-dtinv"})
          \cup (IF Has(r, "err") THEN (IF r.err = "OutOfRange" /\ risky THEN {} ELSE {"C05-search-failed"})
                ELSE IF risky THEN {}
                ELSE IF r.ok.hits = 0 THEN {"C05-roundtrip-instant-not-recovered"}
                ELSE IF r.ok.hits > 1 THEN {"C05-roundtrip-instant-twice"} ELSE {})
\* the same through the algorithm layer: the as-implemented number of hits
AlgoHits(z, u, ns) ==
  LET a == ATypeAt(z, u) IN
  IF ~Has(a, "ok") THEN -1
  ELSE LET dt == DtRec(u, ns, a.ok) list == AFind(z, DtFields(dt), ns) IN
       Cardinality({i \in 1..Len(list) : list[i][1] = "N" /\ list[i][2].u = dt.u /\ list[i][2].off = a.ok.off /\ list[i][2].dst = a.ok.dst /\ list[i][2].des = a.ok.des})

\* ---- C18 ----
OffType(off) == [off |-> off, dst |-> 0, des |-> <<>>]
\* the local time type of a rendering event: offset alone, or with the DST flag and designation the event names (they must not matter)
RType(a) == [off |-> a.off, dst |-> IF Has(a, "dst") THEN a.dst ELSE 0, des |-> IF Has(a, "des") THEN a.des ELSE <<>>]
VRender(e) ==
  LET a == e.a IN
  IF a.via = "utc" THEN
       LET o == Timegm(a.y, a.mo, a.d, a.h, a.mi, a.s, a.ns) IN
       Judge(e.r, IF o.ok = {} THEN o ELSE OutOk([text |-> Render(a.y, a.mo, a.d, a.h, a.mi, a.s, a.ns, 0)]))
  ELSE IF a.off = I32Min THEN Judge(e.r, OutErr("LocalTimeType.InvalidUtcOffset"))
  ELSE LET o == NewDt(a.y, a.mo, a.d, a.h, a.mi, a.s, a.ns, RType(a)) IN
       Judge(e.r, IF o.ok = {} THEN o ELSE Out({[text |-> Render(a.y, a.mo, a.d, a.h, a.mi, a.s, a.ns, a.off), dt |-> v] : v \in o.ok}, o.err))
\* the rendered value's instant: a (seconds, nanoseconds) pair, or a total count of nanoseconds split by the floor rule (C16)
RtPair(a) == IF Has(a, "N") THEN Split(a.N) ELSE [q |-> a.t, r |-> a.ns]
VRenderT(e) ==
  IF e.a.off = I32Min THEN Judge(e.r, OutErr("LocalTimeType.InvalidUtcOffset"))
  ELSE IF ~WFitsI64(RtPair(e.a).q) THEN Judge(e.r, OutErr("OutOfRange"))
  ELSE LET o == FromLocal(WToCDS(RtPair(e.a).q), RtPair(e.a).r, RType(e.a)) IN
       Judge(e.r, Out({[text |-> Render(v.y, v.mo, v.d, v.h, v.mi, v.s, v.ns, e.a.off), dt |-> v] : v \in o.ok}, o.err))
       \cup (IF Has(e.r, "ok") /\ ~WellShaped(e.r.ok.text, e.a.off) THEN {"C18-shape"} ELSE {})
       \cup (IF Has(e.r, "ok") /\ WellShaped(e.r.ok.text, e.a.off) /\
              Read(e.r.ok.text) # [y |-> e.r.ok.dt.y, mo |-> e.r.ok.dt.mo, d |-> e.r.ok.dt.d, h |-> e.r.ok.dt.h, mi |-> e.r.ok.dt.mi, s |-> e.r.ok.dt.s, ns |-> e.r.ok.dt.ns, off |-> e.a.off]
           THEN {"C18-reader-disagrees"} ELSE {})

\* ---- C09 ----
VTzString(e) ==
  IF Has(e.r, "panic") THEN {"panic"} ELSE IF Has(e.r, "arg") THEN {"generator-error"}
  ELSE LET s == TrimWs(e.a.s) via == e.a.via IN
       IF s = <<>> THEN (IF via = "settings" THEN (IF Has(e.r, "err") THEN {} ELSE {"C09-accepted-but-not-a-sentence"})
                         ELSE Judge(e.r, OutOk([rule |-> [k |-> "none"], ntypes |-> 1, ntr |-> 0])))
       ELSE LET p == ParseTz(s, via = "v3") IN
            IF ~p.ok THEN (IF Has(e.r, "err") THEN {} ELSE {"C09-accepted-but-not-a-sentence"})
            ELSE IF Has(e.r, "err") THEN {"C09-sentence-refused"}
            ELSE IF e.r.ok = [rule |-> p.rule, ntypes |-> IF via = "settings" /\ p.rule.k = "alt" THEN 2 ELSE 1, ntr |-> 0] THEN {} ELSE {"C09-wrong-rule"}

\* ---- C08 ----
VTzif(e) ==
  IF Has(e.r, "panic") THEN {"panic"} ELSE IF Has(e.r, "arg") THEN {"generator-error"}
  ELSE LET dd == Decode(e.a.bytes) IN
       IF Has(dd, "unspecified") THEN {}
       ELSE IF ~dd.ok THEN (IF Has(e.r, "err") THEN {} ELSE {"C08-malformed-file-accepted"})
       ELSE IF Has(e.r, "err") THEN (IF Has(dd, "open") THEN {} ELSE {"C08-well-formed-file-refused"})
       ELSE IF e.r.ok = dd.zone THEN {} ELSE {"C08-decoded-zone-differs"}

\* ---- C20 ----
VResolve(e) == IF Has(e.r, "panic") THEN {"panic"} ELSE IF Has(e.r, "arg") THEN {"generator-error"}
               ELSE ResolveTags(e.a.s, e.a.dirs, e.a.vfs, e.r)

\* ---- C10: the reference implementations are bound to the same specification ----
\* an observation [off, des, dst] of glibc / zoneinfo at an instant given on the file's own scale (leap count for right/ files)
VRef(e) ==
  LET tt == WToCDS(e.a.t)
      u == IF e.a.scale = "leap" THEN ToUnix(vZone.lp, tt) ELSE tt
      ta == IF e.a.scale = "leap"
            THEN (IF NTr(vZone) > 0 /\ ~CLe(LastT(vZone), tt) THEN [types |-> {TableTypeAtLeap(vZone, tt)}, err |-> {}] ELSE TypeAt(vZone, u))
            ELSE TypeAt(vZone, tt)
      obs == e.r.ok
  IN IF ~vRefOK THEN {}                              \* the library refused this TZ value: outside the comparison
     ELSE IF ta.types = {} THEN {}                   \* the library reports no type there (C03): nothing to compare
     ELSE IF \E ty \in ta.types : ty.off = obs.off /\ ty.des = obs.des /\ (obs.dst = -1 \/ obs.dst = ty.dst) THEN {}
     ELSE {"C10-reference-disagrees-with-spec"}
\* the set of instants a reference implies for a local time = the preimage of the zone's clock
VRefMk(e) ==
  LET a == e.a L == UnixOf(a.y, a.mo, a.d, a.h, a.mi, a.s)
      mine == {CDSToW(p[1]) : p \in ValidInstants(vZone, L)}
      theirs == {e.r.ok.set[i] : i \in 1..Len(e.r.ok.set)}
  IN IF ~vRefOK \/ \E u \in Candidates(vZone, L) : ~ClockAt(vZone, u)[1] THEN {}     \* refused value / beyond an expired table: out of domain
     ELSE IF mine = theirs THEN {} ELSE {"C10-reference-mktime-disagrees-with-spec"}

\* ---- C15: static footprint facts (one event per occurrence found by the source scan) ----
FootprintAllowed(a) ==
  \/ a.kind = "clock" /\ a.file = "src/utils/system_time.rs"          \* SystemTime::now, only behind now() / find_current_local_time_type
  \/ a.kind = "fs" /\ a.file = "src/timezone/mod.rs"                   \* std::fs::read, only as the default of the injectable read function
VFootprint(e) == IF FootprintAllowed(e.a) THEN {} ELSE {"C15-global-state-footprint"}

\* ---- beyond the list: convenience constructors and the clock-reading entry points ----
FixedZoneArgs(off) == [tr |-> <<>>, ty |-> <<[off |-> off, dst |-> 0, des |-> <<>>]>>, lp |-> <<>>, rule |-> [k |-> "none"]]
VFixedZone(e) ==
  IF e.a.off = I32Min THEN Judge(e.r, OutErr("LocalTimeType.InvalidUtcOffset"))
  ELSE Judge(e.r, OutOk([zone |-> FixedZoneArgs(e.a.off), utc |-> FixedZoneArgs(0), utc_owned |-> FixedZoneArgs(0),
                         equals_utc |-> IF e.a.off = 0 THEN 1 ELSE 0, lt_utc |-> UtcType]))
\* now(): the instant lies between two readings of the same clock taken around the call; the value is a well-formed date-time of the zone
VNow(e) ==
  IF ~Has(e.r, "ok") THEN NoPanic(e.r) \cup {"now-failed"}
  ELSE LET o == e.r.ok IN
       (IF WLe(o.t0, o.dt.tn) /\ WLe(o.dt.tn, o.t1) THEN {} ELSE {"now-outside-clock-readings"})
       \cup (IF e.a.via = "utc" THEN (IF UdtInv(o.dt) THEN {} ELSE {"C14-dtinv"})
             ELSE (IF DtInv(o.dt) THEN {} ELSE {"C14-dtinv"})
                  \cup (IF o.dt \in Localtime(vZone, WToCDS(o.dt.u), o.dt.ns).ok THEN {} ELSE {"wrong-value"}))
       \* find_current_local_time_type (when the harness holds an owned zone): the type the zone prescribes at one of the two clock readings
       \cup (IF o.current_type = <<>> THEN {}
             ELSE IF o.current_type[1] \in (TypeAt(vZone, WToCDS(Split(o.t0).q)).types \cup TypeAt(vZone, WToCDS(Split(o.t1).q)).types) THEN {}
             ELSE {"current-type-not-the-zone's"})

\* ---- the algorithm layer (Algo.tla) as a second, implementation-shaped oracle ----
\* "the result equals what the walk written in the shape of the Rust returns": NoCmp where no comparison is defined
\* (refused fields, the overflow-prone corners of Find.FindRisky, operations without a walk)
FindVsAlgo(z, f, ns, r) ==
  IF FieldErrs(f.y, f.mo, f.d, f.h, f.mi, f.s, ns) # {} THEN "NoCmp"
  ELSE IF FindRisky(z, f, UnixOf(f.y, f.mo, f.d, f.h, f.mi, f.s)) THEN "NoCmp"
  ELSE IF Has(r, "ok") /\ r.ok.list = AFind(z, f, ns) THEN "Same" ELSE "Differs"
TypeVsAlgo(z, u, r) ==
  IF NearI64Edge(z, u) THEN "NoCmp"
  ELSE LET a == ATypeAt(z, u) IN
       IF Has(a, "ok") THEN (IF Has(r, "ok") /\ r.ok = a.ok THEN "Same" ELSE "Differs")
       ELSE (IF Has(r, "err") /\ r.err = a.err THEN "Same" ELSE "Differs")
DtVsAlgo(z, u, ns, r, Val(_)) ==
  IF NearI64Edge(z, u) THEN "NoCmp"
  ELSE LET a == ATypeAt(z, u) IN
       IF Has(a, "ok") THEN LET o == FromLocal(u, ns, a.ok) IN
            (IF Has(r, "ok") THEN (IF Val(r.ok) \in o.ok THEN "Same" ELSE "Differs") ELSE IF Has(r, "err") /\ r.err \in o.err THEN "Same" ELSE "Differs")
       ELSE (IF Has(r, "err") /\ r.err = a.err THEN "Same" ELSE "Differs")
Ident(v) == v
DstOf(v) == v.dst
VsAlgo(e) ==
  IF Has(e.r, "panic") \/ Has(e.r, "arg") THEN "NoCmp"
  ELSE CASE e.op = "find" -> FindVsAlgo(vZone, e.a, e.a.ns, e.r)
         [] e.op = "findn" -> IF Has(e.r, "full") /\ ~Has(e.r.full, "panic") THEN FindVsAlgo(vZone, e.a, e.a.ns, e.r.full) ELSE "NoCmp"
         [] e.op = "roundtrip" ->
              IF ~Has(e.r, "ok") \/ NearI64Edge(vZone, WToCDS(e.a.u)) THEN "NoCmp"
              ELSE IF FindRisky(vZone, DtFields(e.r.ok.dt), UnixOf(e.r.ok.dt.y, e.r.ok.dt.mo, e.r.ok.dt.d, e.r.ok.dt.h, e.r.ok.dt.mi, e.r.ok.dt.s)) THEN "NoCmp"
              ELSE IF AlgoHits(vZone, WToCDS(e.a.u), e.a.ns) = e.r.ok.hits THEN "Same" ELSE "Differs"
         [] e.op = "lookup" -> TypeVsAlgo(vZone, WToCDS(e.a.u), e.r)
         [] e.op = "localtime" -> DtVsAlgo(vZone, WToCDS(e.a.u), e.a.ns, e.r, Ident)
         [] e.op = "project" -> IF Has(e.r, "err") /\ e.r.err = "Construct" THEN "NoCmp" ELSE DtVsAlgo(vZone, ProjT(e.a), e.a.ns, e.r, DstOf)
         [] e.op = "fromnanos" /\ e.a.via = "zone" ->
              LET sp == Split(e.a.N) IN IF ~WFitsI64(sp.q) THEN "NoCmp" ELSE DtVsAlgo(vZone, WToCDS(sp.q), sp.r, e.r, Ident)
         [] OTHER -> "NoCmp"
\* zones of the recorded findings K1 / K2: there the walk and the declarative answer differ, and that difference is the finding
KClass(z) == z.rule.k = "alt" /\ (~Interleaves(z.sum) \/ CoincidentSouth(z.sum))
\* facts about one event: a disagreement with the walk anywhere; "exactly the walk's answer" for a judged-bad event on a K zone
EventInfo(e, tags) ==
  LET c == VsAlgo(e) IN
     (IF c = "Differs" THEN {"algo-differs"} ELSE {})
  \cup (IF tags # {} /\ KClass(vZone) /\ c = "Same" THEN {"as-implemented"} ELSE {})

Verdict(e) ==
  CASE e.op = "gmtime" -> VGmtime(e)
    [] e.op = "fixedzone" -> VFixedZone(e)
    [] e.op = "now" -> VNow(e)
    [] e.op = "footprint" -> VFootprint(e)
    [] e.op = "posixtz" -> NoPanic(e.r)
    [] e.op = "local" -> NoPanic(e.r)
    [] e.op = "ref" -> VRef(e)
    [] e.op = "refmk" -> VRefMk(e)
    [] e.op = "resolve" -> VResolve(e)
    [] e.op = "tzif" -> VTzif(e)
    [] e.op = "tzstring" -> VTzString(e)
    [] e.op = "render" -> VRender(e)
    [] e.op = "rendert" -> VRenderT(e)
    [] e.op = "timegm" -> VTimegm(e)
    [] e.op = "utccmp" -> VUtcCmp(e)
    [] e.op = "fromnanos" -> VFromNanos(e)
    [] e.op = "type" -> VType(e)
    [] e.op = "newdt" -> VNewDt(e)
    [] e.op = "fromlocal" -> VFromLocal(e)
    [] e.op = "localtime" -> VLocaltime(e)
    [] e.op = "project" -> VProject(e)
    [] e.op = "dtcmp" -> VDtCmp(e)
    [] e.op = "ruleday" -> VRuleDay(e)
    [] e.op = "rule" -> VRule(e)
    [] e.op = "lookup" -> VLookup(e)
    [] e.op = "roundtrip" -> VRoundTrip(e)
    [] e.op = "find" -> VFind(e)
    [] e.op = "findn" -> VFindN(e)
    [] OTHER -> {"unknown-op"}

\* C15: an event replayed on several threads sharing the same values must have given every thread the sequential result
ThreadTags(e) == IF Has(e, "tmis") /\ e.tmis > 0 THEN {"C15-thread-result-differs"} ELSE {}
Init == vL = 1 /\ vZone = UtcZone /\ vBuf = EmptyBuf /\ vBad = {} /\ vInfo = {} /\ vRefOK = TRUE
\* a local time type that is only a component of the call's argument (a zone's type list, a rule's halves, a date-time's type)
\* and that LocalTimeType::new refused: well-formed types must be accepted (C13); a refusal the definitions prescribe means the
\* generator built an argument no client could pass
TypeRefusal(r) ==
  LET te == TypeErrs(r.t.off, r.t.des, r.t.des = <<>>) IN
  IF te = {} THEN {"C13-type-refused-but-well-formed"} ELSE IF r.typeerr \in te THEN {"generator-error"} ELSE {"C13-wrong-error"}
Step(e) ==
  IF Has(e.r, "typeerr") THEN
     /\ vBad' = vBad \cup {<<vL, t>> : t \in TypeRefusal(e.r)}
     /\ vZone' = IF e.op = "zone" THEN UtcZone ELSE vZone
     /\ vInfo' = vInfo
     /\ vBuf' = IF e.op = "zone" THEN EmptyBuf ELSE vBuf
  ELSE IF e.op = "zone" THEN
     LET z == MkZone(e.a) tags == VZone(e, z) accepted == Has(e.r, "ok") IN
     /\ vBad' = vBad \cup {<<vL, t>> : t \in tags}
     \* re-synchronised from the logged outcome; an accepted zone that no definition can be evaluated on (no type, a type index
     \* beyond the list) is flagged above and replaced by UTC so that the rest of the trace is still judged
     /\ vZone' = IF accepted /\ z.ty # <<>> /\ (\A i \in 1..Len(z.tr) : z.tr[i].ix < Len(z.ty)) THEN z ELSE UtcZone
     /\ vInfo' = vInfo \cup {<<vL, t>> : t \in ZoneInfo(z)}
     /\ vBuf' = EmptyBuf
  ELSE IF e.op = "resolve" THEN
     /\ vBad' = vBad \cup {<<vL, t>> : t \in Verdict(e)}
     /\ vZone' = IF Has(e.r, "ok") THEN MkZone(e.r.ok.zone) ELSE IF Has(e, "g") THEN UtcZone ELSE vZone
     /\ vInfo' = vInfo
     /\ vBuf' = IF Has(e, "g") THEN EmptyBuf ELSE vBuf           \* a group mark opens a new client session: no zone yet, an empty buffer
  ELSE IF e.op = "fixedzone" THEN
     /\ vBad' = vBad \cup {<<vL, t>> : t \in Verdict(e)}
     /\ vZone' = IF Has(e.r, "ok") THEN MkZone(e.r.ok.zone) ELSE UtcZone
     /\ vInfo' = vInfo
     /\ vBuf' = EmptyBuf
  ELSE IF e.op = "tzif" THEN
     /\ vBad' = vBad \cup {<<vL, t>> : t \in Verdict(e)}
     /\ vZone' = IF Has(e.r, "ok") THEN MkZone(e.r.ok) ELSE UtcZone     \* the zone as decoded by the crate (judged by VTzif)
     /\ vInfo' = vInfo \cup (IF Has(e.r, "ok") THEN {<<vL, t>> : t \in ZoneInfo(MkZone(e.r.ok))} ELSE {})
     /\ vBuf' = EmptyBuf
  ELSE
     LET tags == Verdict(e) IN
     /\ vBad' = vBad \cup {<<vL, t>> : t \in tags \cup ThreadTags(e)}
     /\ vZone' = vZone
     /\ vInfo' = vInfo \cup {<<vL, t>> : t \in EventInfo(e, tags)}
     /\ vBuf' = IF e.op = "findn" /\ Has(e.r, "buf") THEN e.r.buf ELSE vBuf
Next == /\ vL <= NRec /\ Step(Rec[vL]) /\ vL' = vL + 1
        /\ vRefOK' = IF Rec[vL].op = "resolve" THEN Has(Rec[vL].r, "ok")
                     ELSE IF Rec[vL].op \in {"zone", "tzif", "fixedzone"} THEN TRUE ELSE vRefOK
Spec == Init /\ [][Next]_vars
Report == (vL = NRec + 1) => PrintT(<<"DONE", NRec, ToJson(<<vBad, vInfo>>)>>)
=============================================================================
