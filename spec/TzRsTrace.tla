----------------------------- MODULE TzRsTrace -----------------------------
(***************************************************************************)
(* Trace specification: replays an ndjson log of real tz-rs API calls      *)
(* (one event per call: op, full arguments a, full observable result r)    *)
(* through the specification.  Every event is judged against the set of    *)
(* outcomes the specification admits; a disagreeing event does not stop    *)
(* the replay, it is recorded in `bad` with a cause tag.                   *)
(***************************************************************************)
EXTENDS DateTime, Json, IOUtils, TLC

Rec == ndJsonDeserialize(IOEnv.TRACE)
NRec == Len(Rec)

VARIABLES l, bad
vars == <<l, bad>>

Has(r, k) == k \in DOMAIN r
\* tags for a logged result r against an outcome specification out
Judge(r, out) ==
  IF Has(r, "panic") THEN {"panic"}
  ELSE IF Has(r, "arg") THEN {"generator-error"}
  ELSE IF Has(r, "err") THEN (IF r.err \in out.err THEN {} ELSE {"wrong-error"})
  ELSE IF Has(r, "ok") THEN (IF r.ok \in out.ok THEN {} ELSE IF out.ok = {} THEN {"accepted-but-must-fail"} ELSE {"wrong-value"})
  ELSE {"malformed-result"}
\* global invariant of every date-time observation inside an Ok result
OkDt(r, P(_)) == IF Has(r, "ok") THEN (IF P(r.ok) THEN {} ELSE {"C14-dtinv"}) ELSE {}

WithDt(r, out, isZoned) == Judge(r, out) \cup (IF isZoned THEN OkDt(r, DtInv) ELSE OkDt(r, UdtInv))

VGmtime(e) ==
  LET t == WToCDS(e.a.t) IN
  IF e.a.via = "utc" THEN WithDt(e.r, Gmtime(t, e.a.ns), FALSE)
  ELSE WithDt(e.r, FromLocal(t, e.a.ns, UtcType), TRUE)
VTimegm(e) ==
  LET a == e.a IN
  IF a.via = "utc" THEN WithDt(e.r, Timegm(a.y, a.mo, a.d, a.h, a.mi, a.s, a.ns), FALSE)
  ELSE WithDt(e.r, NewDt(a.y, a.mo, a.d, a.h, a.mi, a.s, a.ns, UtcType), TRUE)
\* derived order on UTC date-times: for seconds < 60 it must be the order of (unix time, ns)
VUtcCmp(e) ==
  LET a == e.a.a b == e.a.b
      oa == Timegm(a.y, a.mo, a.d, a.h, a.mi, a.s, a.ns) ob == Timegm(b.y, b.mo, b.d, b.h, b.mi, b.s, b.ns)
  IN IF oa.ok = {} \/ ob.ok = {} THEN (IF Has(e.r, "err") THEN {} ELSE {"accepted-but-must-fail"})
     ELSE IF ~Has(e.r, "ok") THEN {"wrong-error"}
     ELSE LET ua == CDSToW(UnixOf(a.y, a.mo, a.d, a.h, a.mi, a.s)) ub == CDSToW(UnixOf(b.y, b.mo, b.d, b.h, b.mi, b.s))
              c == InstCmp(ua, a.ns, ub, b.ns)
          IN (IF e.r.ok.ua = ua /\ e.r.ok.ub = ub THEN {} ELSE {"wrong-value"})
             \cup (IF a.s < 60 /\ b.s < 60 /\ (e.r.ok.ord # c \/ e.r.ok.eq # (IF c = 0 THEN 1 ELSE 0)) THEN {"order-not-by-instant"} ELSE {})
\* C16
VFromNanos(e) ==
  LET sp == Split(e.a.N) IN
  IF ~WFitsI64(sp.q) THEN Judge(e.r, OutErr("OutOfRange"))
  ELSE LET t == WToCDS(sp.q) IN
       IF e.a.via = "utc" THEN WithDt(e.r, Gmtime(t, sp.r), FALSE)
       ELSE IF e.a.via = "local" THEN WithDt(e.r, FromLocal(t, sp.r, e.a.type), TRUE)
       ELSE {"unsupported-via"}

Verdict(e) ==
  CASE e.op = "gmtime" -> VGmtime(e)
    [] e.op = "timegm" -> VTimegm(e)
    [] e.op = "utccmp" -> VUtcCmp(e)
    [] e.op = "fromnanos" -> VFromNanos(e)
    [] OTHER -> {"unknown-op"}

Init == l = 1 /\ bad = {}
Next == /\ l <= NRec
        /\ LET tags == Verdict(Rec[l]) IN bad' = bad \cup {<<l, t>> : t \in tags}
        /\ l' = l + 1
Spec == Init /\ [][Next]_vars
Report == (l = NRec + 1) => PrintT(<<"DONE", NRec, ToJson(bad)>>)
=============================================================================
