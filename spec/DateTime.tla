------------------------------ MODULE DateTime ------------------------------
(***************************************************************************)
(* UTC and zoned date-time values: what every constructor must return      *)
(* (C01, C02, C14, C16) as records shaped like the harness observations.   *)
(* An outcome specification is a record [ok |-> set of admissible values,  *)
(* err |-> set of admissible error kinds].                                 *)
(***************************************************************************)
EXTENDS Cal

Out(okset, errset) == [ok |-> okset, err |-> errset]
OutOk(v) == Out({v}, {})
OutErr(k) == Out({}, {k})

I32Min == -2147483647 - 1
I32Max == 2147483647

\* ---- C16: total nanoseconds <-> (seconds, nanoseconds) ----
Split(N) == WDivMod1e9(N)                                   \* floor; 0 <= r < 10^9
Join(sec, ns) == WAdd(WShl3(sec), WInt(ns))

\* ---- observation records ----
UdtRec(t, ns) ==
  LET cv == Civil(t) u == CDSToW(t) IN
  [y |-> YInt(cv.c, cv.yic), mo |-> cv.mo, d |-> cv.d, h |-> cv.h, mi |-> cv.mi, s |-> cv.s, ns |-> ns,
   wd |-> cv.wd, yd |-> cv.yd, u |-> u, tn |-> Join(u, ns)]

\* zoned: instant t (CDS), local type ty = [off, dst, des]
DtRec(t, ns, ty) ==
  LET cv == Civil(CAddSec(t, ty.off)) u == CDSToW(t) IN
  [y |-> YInt(cv.c, cv.yic), mo |-> cv.mo, d |-> cv.d, h |-> cv.h, mi |-> cv.mi, s |-> cv.s, ns |-> ns,
   wd |-> cv.wd, yd |-> cv.yd, u |-> u, tn |-> Join(u, ns), off |-> ty.off, dst |-> ty.dst, des |-> ty.des]
UtcType == [off |-> 0, dst |-> 0, des |-> <<>>]

\* ---- C01: gmtime ----
Gmtime(t, ns) == IF InRange(t) THEN OutOk(UdtRec(t, ns)) ELSE OutErr("OutOfRange")
\* zoned date-time from an instant and a local time type: local fields must be representable
\* C03 / C14: the local date-time is the UTC calendar date of (instant + offset); it exists exactly when that sum is in the
\* supported range, whether or not the instant itself is (an instant just outside the range can have a representable local reading)
FromLocal(t, ns, ty) == IF InRange(CAddSec(t, ty.off)) THEN OutOk(DtRec(t, ns, ty)) ELSE OutErr("OutOfRange")

\* ---- C02: timegm ----
FieldErrs(y, mo, d, h, mi, s, ns) ==
     (IF mo \notin 1..12 THEN {"DateTime.InvalidMonth"} ELSE {})
  \cup (IF d \notin 1..31 \/ (mo \in 1..12 /\ d > DaysInMonth(IsLeap(y % 400), mo)) THEN {"DateTime.InvalidMonthDay"} ELSE {})
  \cup (IF h > 23 THEN {"DateTime.InvalidHour"} ELSE {})
  \cup (IF mi > 59 THEN {"DateTime.InvalidMinute"} ELSE {})
  \cup (IF s > 60 THEN {"DateTime.InvalidSecond"} ELSE {})
  \cup (IF ns >= 1000000000 THEN {"DateTime.InvalidNanoseconds"} ELSE {})
IsMaxLeap(y, mo, d, h, mi, s) == y = I32Max /\ mo = 12 /\ d = 31 /\ h = 23 /\ mi = 59 /\ s = 60

\* the observation of a UTC date-time built from fields: fields are kept as given (second 60 included)
UdtOfFields(y, mo, d, h, mi, s, ns) ==
  LET t == UnixOf(y, mo, d, h, mi, s) day == DateCDS(y, mo, d, 0) u == CDSToW(t) IN
  [y |-> y, mo |-> mo, d |-> d, h |-> h, mi |-> mi, s |-> s, ns |-> ns,
   wd |-> (day[2] + 6) % 7, yd |-> day[2] - DBYTab[YicOfDay(day[2])], u |-> u, tn |-> Join(u, ns)]
Timegm(y, mo, d, h, mi, s, ns) ==
  LET errs == FieldErrs(y, mo, d, h, mi, s, ns) IN
  IF IsMaxLeap(y, mo, d, h, mi, s) THEN Out({}, {"OutOfRange"} \cup errs)
  ELSE IF errs # {} THEN Out({}, errs)
  ELSE OutOk(UdtOfFields(y, mo, d, h, mi, s, ns))

\* zoned date-time from fields and a local time type (C14): instant = UnixOf(fields) - off must be in range
DtOfFields(y, mo, d, h, mi, s, ns, ty) ==
  LET t == CAddSec(UnixOf(y, mo, d, h, mi, s), -ty.off) day == DateCDS(y, mo, d, 0) u == CDSToW(t) IN
  [y |-> y, mo |-> mo, d |-> d, h |-> h, mi |-> mi, s |-> s, ns |-> ns,
   wd |-> (day[2] + 6) % 7, yd |-> day[2] - DBYTab[YicOfDay(day[2])], u |-> u, tn |-> Join(u, ns),
   off |-> ty.off, dst |-> ty.dst, des |-> ty.des]
NewDt(y, mo, d, h, mi, s, ns, ty) ==
  LET errs == FieldErrs(y, mo, d, h, mi, s, ns) IN
  IF errs # {} THEN Out({}, errs)
  ELSE IF ~InTRange(CAddSec(UnixOf(y, mo, d, h, mi, s), -ty.off)) THEN OutErr("OutOfRange")
  ELSE OutOk(DtOfFields(y, mo, d, h, mi, s, ns, ty))

\* ---- C14: the invariant of every zoned date-time the API hands out ----
\* r is an observation record (as logged); second 60 stands for second 0 of the next minute
DtInvOff(r, off) ==
  LET t == WToCDS(r.u)
      loc == CAddSec(t, off)
      viaFields == UnixOf(r.y, r.mo, r.d, r.h, r.mi, r.s)        \* s = 60 carries into the next minute
      day == DateCDS(r.y, r.mo, r.d, 0)
  IN /\ r.mo \in 1..12 /\ r.d >= 1 /\ r.d <= DaysInMonth(IsLeap(r.y % 400), r.mo)
     /\ r.h \in 0..23 /\ r.mi \in 0..59 /\ r.s \in 0..60
     /\ viaFields = loc
     /\ r.wd = (day[2] + 6) % 7
     /\ r.yd = day[2] - DBYTab[YicOfDay(day[2])]
     /\ r.tn = Join(r.u, r.ns)
\* the same for a UTC date-time observation (offset 0)
DtInv(r) == DtInvOff(r, r.off)
UdtInv(r) == DtInvOff(r, 0)

\* order and equality between zoned date-times depend on (instant, ns) only
InstCmp(ua, nsa, ub, nsb) == LET c == WCmp(ua, ub) IN IF c # 0 THEN c ELSE IF nsa < nsb THEN -1 ELSE IF nsa = nsb THEN 0 ELSE 1
=============================================================================
