------------------------------ MODULE Resolve ------------------------------
(***************************************************************************)
(* C20: resolving a TZ value the way tzset(3) does, against a virtual file *)
(* system.  The only multi-step operation of the library: an ordered list  *)
(* of read requests, then an outcome.                                      *)
(*   vfs  : sequence of <<path, content>>, content = bytes or <<-1>> = unreadable *)
(*          (a path that does not occur is absent); first entry wins       *)
(*   dirs : sequence of directory names                                    *)
(***************************************************************************)
EXTENDS TzFile

Unreadable == <<-1>>
Slash == 47
Colon == 58
LocaltimeName == <<108, 111, 99, 97, 108, 116, 105, 109, 101>>                          \* "localtime"
EtcLocaltime == <<47, 101, 116, 99, 47, 108, 111, 99, 97, 108, 116, 105, 109, 101>>     \* "/etc/localtime"
\* candidate paths of a file name, in the order they must be tried
Paths(name, dirs) == IF name # <<>> /\ name[1] = Slash THEN <<name>> ELSE [i \in 1..Len(dirs) |-> dirs[i] \o <<Slash>> \o name]
\* content of a path: <<TRUE, bytes>> if readable
Entries(vfs, path) == {i \in 1..Len(vfs) : vfs[i][1] = path}
Content(vfs, path) ==
  LET es == Entries(vfs, path) IN
  IF es = {} THEN <<FALSE, <<>>>>
  ELSE LET e == vfs[CHOOSE i \in es : \A j \in es : i <= j] IN IF e[2] = Unreadable THEN <<FALSE, <<>>>> ELSE <<TRUE, e[2]>>
IsReadable(vfs, path) == LET es == Entries(vfs, path) IN es # {} /\ vfs[CHOOSE i \in es : \A j \in es : i <= j][2] # Unreadable
\* the requests made while looking for the first readable candidate, and what was found
FirstReadable(vfs, cands) == LET ok == {i \in 1..Len(cands) : IsReadable(vfs, cands[i])} IN IF ok = {} THEN 0 ELSE CHOOSE i \in ok : \A j \in ok : i <= j
ReadsOf(vfs, cands) == LET f == FirstReadable(vfs, cands) IN IF f = 0 THEN cands ELSE SubSeq(cands, 1, f)

RuleZone(rule) == [tr |-> <<>>, ty |-> IF rule.k = "fixed" THEN <<rule.t>> ELSE <<rule.std, rule.dst>>, lp |-> <<>>, rule |-> rule]
\* outcome kinds: "zone" (with the zone), "io" (I/O error), "decode" (the file was read but is malformed: any error but I/O),
\* "refused" (any error)
FromFile(bytes) == LET dd == Decode(bytes) IN
  IF "unspecified" \in DOMAIN dd \/ "open" \in DOMAIN dd THEN [kind |-> "any"]
  ELSE IF dd.ok THEN [kind |-> "zone", zone |-> dd.zone] ELSE [kind |-> "decode"]
Lookup1(vfs, cands, fallback) ==
  LET f == FirstReadable(vfs, cands) IN
  [reads |-> ReadsOf(vfs, cands), out |-> IF f = 0 THEN fallback ELSE FromFile(Content(vfs, cands[f])[2])]
Description(s) == LET p == ParseTz(TrimWs(s), FALSE) IN IF p.ok THEN [kind |-> "zone", zone |-> RuleZone(p.rule)] ELSE [kind |-> "refused"]
Resolve(s, dirs, vfs) ==
  IF s = <<>> THEN [reads |-> <<>>, out |-> [kind |-> "refused"]]
  ELSE IF s = LocaltimeName THEN Lookup1(vfs, <<EtcLocaltime>>, [kind |-> "io"])
  ELSE IF s[1] = Colon THEN Lookup1(vfs, Paths(Tail(s), dirs), [kind |-> "io"])               \* ':' forces a file, no fallback
  ELSE Lookup1(vfs, Paths(s, dirs), Description(s))                                            \* file first, then the description
\* tags for a logged result r = [ok |-> [zone], reads] or [err |-> kind, reads]
ResolveTags(s, dirs, vfs, r) ==
  LET rs == Resolve(s, dirs, vfs) IN
     (IF r.reads = rs.reads THEN {} ELSE {"C20-read-requests-differ"})
  \cup (IF rs.out.kind = "any" THEN {}
        ELSE IF rs.out.kind = "zone" THEN (IF "ok" \in DOMAIN r /\ r.ok.zone = rs.out.zone THEN {} ELSE {"C20-wrong-zone"})
        ELSE IF "ok" \in DOMAIN r THEN {"C20-accepted-but-must-fail"}
        ELSE IF rs.out.kind = "io" THEN (IF r.err = "Io" THEN {} ELSE {"C20-not-an-io-error"})
        ELSE IF rs.out.kind = "decode" THEN (IF r.err # "Io" THEN {} ELSE {"C20-malformed-file-not-a-decoding-error"})
        ELSE {})
=============================================================================
