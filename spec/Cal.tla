-------------------------------- MODULE Cal --------------------------------
(***************************************************************************)
(* The proleptic Gregorian calendar, stated from its axioms (leap rule,    *)
(* month lengths, one day after another) and NOT in the shape of the Rust  *)
(* code (which counts from 2000-03-01 with a division cascade and from     *)
(* 1970 with two truncating-division formulas).                            *)
(*                                                                         *)
(* An instant is a triple <<c, d, s>> ("CDS"): c = index of the 400-year   *)
(* cycle starting at 0000-01-01 (year = 400*c + year-in-cycle), d = day in *)
(* the cycle 0..146096, s = second of day 0..86399.  All three fit TLC's   *)
(* 32-bit integers for every i64 Unix time.                                *)
(***************************************************************************)
EXTENDS Wide, FiniteSets

IsLeap(y) == (y % 400 = 0) \/ (y % 4 = 0 /\ y % 100 # 0)
DaysInMonth(leap, m) == IF m = 2 THEN (IF leap THEN 29 ELSE 28) ELSE IF m \in {4, 6, 9, 11} THEN 30 ELSE 31
YearLen(leap) == IF leap THEN 366 ELSE 365
DaysPerCycle == 146097
SecPerDay == 86400

\* days before year-in-cycle y (y = 400 gives the cycle length): counted, not computed
\* (bound names are deliberately unusual: a state variable of the same name in a model defeats TLC's caching of constant tables)
DBYTab == [yTab \in 0..400 |-> 365 * yTab + Cardinality({jTab \in 0..(yTab - 1) : IsLeap(jTab)})]
\* days before month m (m = 13: the year length): explicit tables, tied to the month-length axiom by the ASSUME below
CumN == <<0, 31, 59, 90, 120, 151, 181, 212, 243, 273, 304, 334, 365>>
CumL == <<0, 31, 60, 91, 121, 152, 182, 213, 244, 274, 305, 335, 366>>
ASSUME /\ CumN[1] = 0 /\ CumL[1] = 0
       /\ \A m \in 1..12 : CumN[m + 1] = CumN[m] + DaysInMonth(FALSE, m) /\ CumL[m + 1] = CumL[m] + DaysInMonth(TRUE, m)
Cum(leap) == IF leap THEN CumL ELSE CumN
ASSUME DBYTab[400] = DaysPerCycle /\ CumN[13] = 365 /\ CumL[13] = 366 /\ DaysPerCycle % 7 = 0

CMin2(a, b) == IF a <= b THEN a ELSE b
\* year-in-cycle containing day-in-cycle d: the unique bracket, searched among <= 3 candidates
YicOfDay(d) == CHOOSE y \in (d \div 366)..CMin2(399, d \div 365) : DBYTab[y] <= d /\ d < DBYTab[y + 1]
MonthOfYd(leap, yd) == CHOOSE m \in 1..12 : Cum(leap)[m] <= yd /\ yd < Cum(leap)[m + 1]

\* ---- years as (cycle, year-in-cycle) pairs; i32 range without overflowing ----
YSplit(y) == <<y \div 400, y % 400>>
YInt(c, yic) == IF c >= 0 THEN 400 * c + yic ELSE 400 * (c + 1) + (yic - 400)
YearFitsI32(c, yic) == /\ (c > -5368710 \/ (c = -5368710 /\ yic >= 352))
                       /\ (c < 5368709 \/ (c = 5368709 /\ yic <= 47))

\* ---- CDS arithmetic ----
CNorm(c, d, s) == LET d1 == d + (s \div SecPerDay) IN <<c + (d1 \div DaysPerCycle), d1 % DaysPerCycle, s % SecPerDay>>
CAddSec(t, k) == CNorm(t[1], t[2] + (k \div SecPerDay), t[3] + (k % SecPerDay))
CAddDays(t, n) == CNorm(t[1], t[2] + n, t[3])
CCmp(a, b) == IF a[1] # b[1] THEN (IF a[1] < b[1] THEN -1 ELSE 1)
              ELSE IF a[2] # b[2] THEN (IF a[2] < b[2] THEN -1 ELSE 1)
              ELSE IF a[3] # b[3] THEN (IF a[3] < b[3] THEN -1 ELSE 1) ELSE 0
CLt(a, b) == CCmp(a, b) < 0
CLe(a, b) == CCmp(a, b) <= 0

\* ---- wide Unix time <-> CDS ----
EpochW == <<0, 200, 219, 167, 62>>         \* 62167219200 = 719528 days * 86400 : 0000-01-01 .. 1970-01-01
WToCDS(w) == LET q1 == WDivMod(WAdd(w, EpochW), SecPerDay)
                 q2 == WDivMod(q1.q, DaysPerCycle)
             IN <<WToInt(q2.q), q2.r, q1.r>>
CDSToW(t) == WSub(WAdd(WMulSmall(WAdd(WMulSmall(WInt(t[1]), DaysPerCycle), WInt(t[2])), SecPerDay), WInt(t[3])), EpochW)

\* ---- civil fields of an instant ----
Civil(t) ==
  LET yic == YicOfDay(t[2])
      leap == IsLeap(yic)
      yd == t[2] - DBYTab[yic]
      m == MonthOfYd(leap, yd)
  IN [c |-> t[1], yic |-> yic, mo |-> m, d |-> yd - Cum(leap)[m] + 1,
      h |-> t[3] \div 3600, mi |-> (t[3] % 3600) \div 60, s |-> t[3] % 60,
      wd |-> (t[2] + 6) % 7,       \* 0000-01-01 is a Saturday; 146097 = 20871 weeks
      yd |-> yd]
InRange(t) == YearFitsI32(t[1], YicOfDay(t[2]))

\* the i32 year of an in-range instant
YearOf(t) == YInt(t[1], YicOfDay(t[2]))

\* ---- fields -> instant ----
ValidDate(y, mo, d) == mo \in 1..12 /\ d >= 1 /\ d <= DaysInMonth(IsLeap(y % 400), mo)
ValidTime(h, mi, s) == h \in 0..23 /\ mi \in 0..59 /\ s \in 0..60
\* day number of a date given as (i32 year, month, day); day may be any small integer (day 0, Dec 32nd ...)
DateCDS(y, mo, d, secs) == LET ys == YSplit(y) IN CNorm(ys[1], DBYTab[ys[2]] + Cum(IsLeap(ys[2]))[mo] + d - 1, secs)
UnixOf(y, mo, d, h, mi, s) == DateCDS(y, mo, d, h * 3600 + mi * 60 + s)

MinT == <<-5368710, DBYTab[352], 0>>
MaxT == <<5368709, DBYTab[48] - 1, 86399>>
InTRange(t) == CLe(MinT, t) /\ CLe(t, MaxT)
MinTW == <<1, 200, 971, 567, 100, 768, 67>>     \* -67768100567971200
MaxTW == <<0, 799, 532, 233, 976, 767, 67>>     \*  67767976233532799
=============================================================================
