-------------------------------- MODULE Find --------------------------------
(***************************************************************************)
(* mktime (C05, C06, C17): searching a zone for a local calendar time.     *)
(* Valid results = the preimage of the zone's clock; gaps = per-transition *)
(* structural definition; results in non-decreasing order of instant.      *)
(***************************************************************************)
EXTENDS Zone

RuleOffsets(z) == IF z.rule.k = "fixed" THEN {z.rule.t.off} ELSE IF z.rule.k = "alt" THEN {z.rule.std.off, z.rule.dst.off} ELSE {}
ZoneOffsets(z) == {z.ty[i].off : i \in 1..Len(z.ty)} \cup RuleOffsets(z)
\* the zone's clock as a function (C04's open cases resolved by the period definition; see FindDomain)
ClockRuleType(z, u) == IF z.rule.k = "fixed" THEN z.rule.t ELSE IF InDst(z.rule, z.sum, u) THEN z.rule.dst ELSE z.rule.std
\* <<defined, type>>
ClockAt(z, u) ==
  IF NTr(z) = 0 /\ z.rule.k = "none" THEN <<TRUE, z.ty[1]>>
  ELSE IF UsesRule(z, u) THEN (IF z.rule.k = "none" THEN <<FALSE, UtcType>> ELSE <<TRUE, ClockRuleType(z, u)>>)
  ELSE <<TRUE, TableTypeAtLeap(z, ToLeap(z.lp, u))>>
Candidates(z, L) == {CAddSec(L, -o) : o \in ZoneOffsets(z)}
\* set of <<instant, type>>: exactly the instants at which the zone's clock shows L
ValidInstants(z, L) == {p \in {<<u, ClockAt(z, u)>> : u \in Candidates(z, L)} : p[2][1] /\ CAddSec(p[1], p[2][2].off) = L}

\* ---- gaps, per transition ----
BeforeType(z, i) == IF i = 1 THEN z.ty[1] ELSE TypeOfTr(z, i - 1)
GapTransitions(z) == {i \in 1..NTr(z) : i < NTr(z) \/ z.rule.k # "none"}
\* <<transition instant (UTC), before type, after type>>
TableGaps(z, L) ==
  {g \in {<<ToUnix(z.lp, z.tr[i].t), BeforeType(z, i), TypeOfTr(z, i)>> : i \in GapTransitions(z)} :
      g[2].off < g[3].off /\ CLe(CAddSec(g[1], g[2].off), L) /\ CLt(L, CAddSec(g[1], g[3].off))}
RuleTransitions(z, L) ==
  IF z.rule.k # "alt" THEN {}
  ELSE LET r == z.rule
           ys == Years5(L)
           all == {<<RS(r, y), r.std, r.dst>> : y \in ys} \cup {<<RE(r, y), r.dst, r.std>> : y \in ys}
       IN IF NTr(z) = 0 THEN all ELSE {g \in all : CLt(ToUnix(z.lp, LastT(z)), g[1])}
\* The clock JUMPS at a rule instant only if no other rule instant coincides with it: where a period is empty - all-year DST,
\* E(y) = S(y+1); a year in which S(y) = E(y) - the two changes cancel and the clock shows the same type before and after.
Jumps(all) == {g \in all : ~\E h \in all : h # g /\ h[1] = g[1]}
RuleGaps(z, L) == {g \in Jumps(RuleTransitions(z, L)) : g[2].off < g[3].off /\ CLe(CAddSec(g[1], g[2].off), L) /\ CLt(L, CAddSec(g[1], g[3].off))}
Gaps(z, L) == TableGaps(z, L) \cup RuleGaps(z, L)

\* ---- domain in which the statements fix the outcome completely ----
FieldYear(f) == YSplit(f.y)
FindRisky(z, f, L) ==
  \/ \E u \in Candidates(z, L) : ~InTRange(u)
  \/ \E g \in Gaps(z, L) : ~InRange(CAddSec(g[1], g[2].off)) \/ ~InRange(CAddSec(g[1], g[3].off))
  \/ (z.rule.k = "alt" /\ ~YearInGuard(FieldYear(f)[1], FieldYear(f)[2]))
  \/ (Len(z.lp) > 0 /\ \E i \in 1..NTr(z) : CLt(z.tr[i].t, CAddSec(I64LoCDS, 100000)) \/ CLt(CAddSec(I64HiCDS, -100000), z.tr[i].t))
\* rules whose clock the statements leave open (C04): search content is not judged there
FindUnspecified(z) == z.rule.k = "alt" /\ Degenerate(z.sum)

\* ---- expected entries ----
NormalEntry(f, ns, ty) == <<"N", DtOfFields(f.y, f.mo, f.d, f.h, f.mi, f.s, ns, ty)>>
GapEntry(g, ns) == <<"S", DtRec(g[1], ns, g[2]), DtRec(g[1], ns, g[3])>>
Expected(z, f, ns) ==
  LET L == UnixOf(f.y, f.mo, f.d, f.h, f.mi, f.s) IN
  {NormalEntry(f, ns, p[2][2]) : p \in ValidInstants(z, L)} \cup {GapEntry(g, ns) : g \in Gaps(z, L)}

\* ---- judging a returned list (a sequence of <<"N", dt>> / <<"S", before, after>>) ----
EntryInstant(e) == e[2].u
SeqToSet(s) == {s[i] : i \in 1..Len(s)}
ListTags(list, exp) ==
  LET got == SeqToSet(list) IN
     (IF \E e \in got : e[1] = "N" /\ e \notin exp THEN {"C05-normal-not-an-instant-showing-that-time"} ELSE {})
  \cup (IF \E e \in exp : e[1] = "N" /\ e \notin got THEN {"C05-instant-missing"} ELSE {})
  \cup (IF Len(list) # Cardinality(got) THEN {"C05-duplicate-entry"} ELSE {})
  \cup (IF \E e \in got : e[1] = "S" /\ e \notin exp THEN {"C06-gap-reported-wrongly"} ELSE {})
  \cup (IF \E e \in exp : e[1] = "S" /\ e \notin got THEN {"C06-gap-missing"} ELSE {})
  \cup (IF \E i \in 1..(Len(list) - 1) : WLt(EntryInstant(list[i + 1]), EntryInstant(list[i])) THEN {"C06-not-ascending"} ELSE {})
AccessorsOf(list) ==
  [unique |-> IF Len(list) = 1 /\ list[1][1] = "N" THEN <<list[1][2]>> ELSE <<>>,
   earliest |-> IF list = <<>> THEN <<>> ELSE <<list[1][2]>>,
   latest |-> IF list = <<>> THEN <<>> ELSE LET e == list[Len(list)] IN IF e[1] = "N" THEN <<e[2]>> ELSE <<e[3]>>]
AccessorTags(ok) == LET acc == AccessorsOf(ok.list) IN
  IF ok.unique = acc.unique /\ ok.earliest = acc.earliest /\ ok.latest = acc.latest THEN {} ELSE {"C06-accessor"}
\* every date-time inside a result satisfies the C14 invariant
EntryDtTags(list) ==
     (IF \A i \in 1..Len(list) : DtInv(list[i][2]) /\ (list[i][1] = "S" => DtInv(list[i][3])) THEN {} ELSE {"C14-dtinv"})
     \* a valid result is a date-time constructed from fields: its instant must lie in the supported range
  \cup (IF \A i \in 1..Len(list) : list[i][1] = "N" => (WLe(MinTW, list[i][2].u) /\ WLe(list[i][2].u, MaxTW)) THEN {} ELSE {"C14-instant-out-of-range"})

\* tags for the result r of a search for fields f, ns in zone z
FindTags(z, f, ns, r) ==
  LET errs == FieldErrs(f.y, f.mo, f.d, f.h, f.mi, f.s, ns) IN
  IF errs # {} THEN (IF "err" \in DOMAIN r /\ r.err \in errs THEN {} ELSE {"C05-invalid-fields-not-refused"})
  ELSE LET L == UnixOf(f.y, f.mo, f.d, f.h, f.mi, f.s) IN
       IF "err" \in DOMAIN r THEN (IF r.err = "OutOfRange" /\ FindRisky(z, f, L) THEN {} ELSE {"C05-search-failed"})
       ELSE EntryDtTags(r.ok.list) \cup AccessorTags(r.ok)
            \cup (IF FindRisky(z, f, L) \/ FindUnspecified(z) THEN {} ELSE ListTags(r.ok.list, Expected(z, f, ns)))

\* ---- C17: the buffer-based search, relative to the allocating one on the same arguments ----
\* buf = buffer before the call (sequence of entries, <<>> for an empty slot); r = logged result incl. r.full (the result
\* of the allocating search) and r.buf (whole buffer after the call)
Min2(a, b) == IF a <= b THEN a ELSE b
FindNTags(buf, n, r) ==
  IF "err" \in DOMAIN r.full THEN (IF "err" \in DOMAIN r.res /\ r.res.err = r.full.err THEN {} ELSE {"C17-error-differs"})
  ELSE IF "err" \in DOMAIN r.res THEN {"C17-error-differs"}
  ELSE LET R == r.full.ok.list k == Len(R) m == Min2(n, k) ok == r.res.ok IN
         (IF ok.count = k THEN {} ELSE {"C17-count"})
    \cup (IF ok.exh = (IF n >= k THEN 1 ELSE 0) THEN {} ELSE {"C17-exhaustive-flag"})
    \cup (IF ok.data = SubSeq(R, 1, m) THEN {} ELSE {"C17-prefix"})
    \cup (IF \A i \in 1..Len(buf) : r.buf[i] = (IF i <= m THEN R[i] ELSE buf[i]) THEN {} ELSE {"C17-buffer-frame"})
    \cup (IF n >= k /\ ~(ok.unique = r.full.ok.unique /\ ok.earliest = r.full.ok.earliest /\ ok.latest = r.full.ok.latest)
          THEN {"C17-accessors"} ELSE {})
=============================================================================
