------------------------------ MODULE MC_Wide ------------------------------
(* Model-checks Wide.tla against TLC's native integers on vA range where both apply. *)
EXTENDS Wide, TLC
VARIABLES vA, vB, vPh
Rng == (-1060..-940) \cup (-60..60) \cup (940..1060)
Bs == Rng
Big == {-2147483647 - 1, -2147483647, -2147483000, -1000000000, -999999999, -1000001, -1000000, -999999,
        999999, 1000000, 1000001, 999999999, 1000000000, 2147483000, 2147483646, 2147483647}
Init == vA = 0 /\ vB = 0 /\ vPh = 0
Next == \/ vPh = 0 /\ vPh' = 1 /\ vA' \in Rng \cup Big /\ vB' = 0
        \/ vPh = 1 /\ vPh' = 2 /\ vA' = vA /\ vB' \in Bs
Ks == {1, 2, 7, 999, 1000, 1001, 86400, 146097, 604800, 2147483}
Sm(x) == x \in Rng
OK == /\ IsWide(WInt(vA)) /\ IsWide(WInt(vB))
      /\ WToInt(WInt(vA)) = vA
      /\ WFitsI32(WInt(vA))
      /\ (Sm(vA) => /\ WToInt(WAdd(WInt(vA), WInt(vB))) = vA + vB
                   /\ WToInt(WSub(WInt(vA), WInt(vB))) = vA - vB
                   /\ WToInt(WMulSmall(WInt(vA), vB + 1060)) = vA * (vB + 1060)
                   /\ IsWide(WAdd(WInt(vA), WInt(vB))) /\ IsWide(WSub(WInt(vA), WInt(vB))))
      /\ WCmp(WInt(vA), WInt(vB)) = (IF vA < vB THEN -1 ELSE IF vA = vB THEN 0 ELSE 1)
      /\ WNeg(WNeg(WInt(vA))) = WInt(vA)
      /\ \A k \in Ks : LET qr == WDivMod(WInt(vA), k) IN
            /\ IsWide(qr.q) /\ WToInt(qr.q) = vA \div k /\ qr.r = vA % k
      /\ LET w == WAdd(WShl3(WInt(vA)), WInt(vB + 1060)) qr == WDivMod1e9(w) IN
            /\ IsWide(w) /\ qr.q = WInt(vA) /\ qr.r = vB + 1060
      /\ LET w == WSub(WShl3(WInt(vA)), WInt(vB + 1061)) qr == WDivMod1e9(w) IN
            /\ IsWide(w) /\ qr.q = WSub(WInt(vA), WInt(1)) /\ qr.r = 1000000000 - (vB + 1061)
      \* beyond 32 bits: (vA * 2^31-ish) round trips through division
      /\ LET w == WAdd(WMulSmall(WMulSmall(WInt(vA), 146097), 86400), WInt(vB + 1060))
             q1 == WDivMod(w, 86400) q2 == WDivMod(q1.q, 146097)
         IN /\ IsWide(w) /\ q1.r = vB + 1060 /\ q2.r = 0 /\ q2.q = WInt(vA)
      /\ WFitsI64(WMinI64) /\ WFitsI64(WMaxI64) /\ ~WFitsI64(WAddInt(WMaxI64, 1)) /\ ~WFitsI64(WAddInt(WMinI64, -1))
Spec == Init /\ [][Next]_<<vA, vB, vPh>>
=============================================================================
