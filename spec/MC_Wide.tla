------------------------------ MODULE MC_Wide ------------------------------
(* Model-checks Wide.tla against TLC's native integers on a range where both apply. *)
EXTENDS Wide, TLC
VARIABLES a, b, ph
Rng == (-1060..-940) \cup (-60..60) \cup (940..1060)
Bs == Rng
Big == {-2147483647 - 1, -2147483647, -2147483000, -1000000000, -999999999, -1000001, -1000000, -999999,
        999999, 1000000, 1000001, 999999999, 1000000000, 2147483000, 2147483646, 2147483647}
Init == a = 0 /\ b = 0 /\ ph = 0
Next == \/ ph = 0 /\ ph' = 1 /\ a' \in Rng \cup Big /\ b' = 0
        \/ ph = 1 /\ ph' = 2 /\ a' = a /\ b' \in Bs
Ks == {1, 2, 7, 999, 1000, 1001, 86400, 146097, 604800, 2147483}
Sm(x) == x \in Rng
OK == /\ IsWide(WInt(a)) /\ IsWide(WInt(b))
      /\ WToInt(WInt(a)) = a
      /\ WFitsI32(WInt(a))
      /\ (Sm(a) => /\ WToInt(WAdd(WInt(a), WInt(b))) = a + b
                   /\ WToInt(WSub(WInt(a), WInt(b))) = a - b
                   /\ WToInt(WMulSmall(WInt(a), b + 1060)) = a * (b + 1060)
                   /\ IsWide(WAdd(WInt(a), WInt(b))) /\ IsWide(WSub(WInt(a), WInt(b))))
      /\ WCmp(WInt(a), WInt(b)) = (IF a < b THEN -1 ELSE IF a = b THEN 0 ELSE 1)
      /\ WNeg(WNeg(WInt(a))) = WInt(a)
      /\ \A k \in Ks : LET qr == WDivMod(WInt(a), k) IN
            /\ IsWide(qr.q) /\ WToInt(qr.q) = a \div k /\ qr.r = a % k
      /\ LET w == WAdd(WShl3(WInt(a)), WInt(b + 1060)) qr == WDivMod1e9(w) IN
            /\ IsWide(w) /\ qr.q = WInt(a) /\ qr.r = b + 1060
      /\ LET w == WSub(WShl3(WInt(a)), WInt(b + 1061)) qr == WDivMod1e9(w) IN
            /\ IsWide(w) /\ qr.q = WSub(WInt(a), WInt(1)) /\ qr.r = 1000000000 - (b + 1061)
      \* beyond 32 bits: (a * 2^31-ish) round trips through division
      /\ LET w == WAdd(WMulSmall(WMulSmall(WInt(a), 146097), 86400), WInt(b + 1060))
             q1 == WDivMod(w, 86400) q2 == WDivMod(q1.q, 146097)
         IN /\ IsWide(w) /\ q1.r = b + 1060 /\ q2.r = 0 /\ q2.q = WInt(a)
      /\ WFitsI64(WMinI64) /\ WFitsI64(WMaxI64) /\ ~WFitsI64(WAddInt(WMaxI64, 1)) /\ ~WFitsI64(WAddInt(WMinI64, -1))
Spec == Init /\ [][Next]_<<a, b, ph>>
=============================================================================
