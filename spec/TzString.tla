------------------------------ MODULE TzString ------------------------------
(***************************************************************************)
(* C09: POSIX TZ descriptions  std offset[dst[offset][,start[/time],end[/time]]] *)
(* as a recogniser with denotation over byte sequences.  `ext` = RFC 8536  *)
(* extensions (signed transition times up to +-167 h), honoured only for   *)
(* version-3 footers.  The result is [ok |-> TRUE, rule |-> ...] or        *)
(* [ok |-> FALSE]; which error a non-sentence gets is not part of C09.     *)
(***************************************************************************)
EXTENDS Rule

Fail == [ok |-> FALSE]
IsDig(ch) == ch \in 48..57
IsAlpha(ch) == ch \in (65..90) \cup (97..122)
IsWs(ch) == ch \in {32, 9, 10, 12, 13}                 \* ASCII whitespace as both public paths trim it
\* first position >= i whose byte does not satisfy P (Len + 1 if none)
SpanEnd(s, i, P(_)) == LET bad == {j \in i..Len(s) : ~P(s[j])} IN IF bad = {} THEN Len(s) + 1 ELSE CHOOSE j \in bad : \A q \in bad : j <= q
At(s, i, ch) == i <= Len(s) /\ s[i] = ch
TrimWs(s) ==
  LET keep == {i \in 1..Len(s) : ~IsWs(s[i])} IN
  IF keep = {} THEN <<>> ELSE SubSeq(s, CHOOSE i \in keep : \A j \in keep : i <= j, CHOOSE i \in keep : \A j \in keep : j <= i)

\* value of a digit string; -1 if empty; 99999 stands for "larger than anything the grammar allows" (also machine overflow)
RECURSIVE DigVal(_, _)
DigVal(ds, acc) == IF ds = <<>> THEN acc ELSE IF acc > 9999 THEN 99999 ELSE DigVal(Tail(ds), acc * 10 + (Head(ds) - 48))
NumAt(s, i) == LET j == SpanEnd(s, i, IsDig) IN [v |-> IF j = i THEN -1 ELSE DigVal(SubSeq(s, i, j - 1), 0), nxt |-> j]

\* name: <...> quoted, or the maximal alphabetic run; must be 3..7 characters of [A-Za-z0-9+-]
ParseName(s, i) ==
  IF At(s, i, 60) THEN
     LET closes == {j \in (i + 1)..Len(s) : s[j] = 62} IN
     IF closes = {} THEN Fail
     ELSE LET j == CHOOSE q \in closes : \A p \in closes : q <= p IN [ok |-> TRUE, name |-> SubSeq(s, i + 1, j - 1), nxt |-> j + 1]
  ELSE LET j == SpanEnd(s, i, IsAlpha) IN [ok |-> TRUE, name |-> SubSeq(s, i, j - 1), nxt |-> j]
NameOK(nm) == Len(nm) \in 3..7 /\ \A q \in 1..Len(nm) : nm[q] \in (48..57) \cup (65..90) \cup (97..122) \cup {43, 45}

\* h[:m[:s]] ; missing parts are 0
ParseHms(s, i) ==
  LET h == NumAt(s, i) IN
  IF h.v < 0 THEN Fail
  ELSE IF ~At(s, h.nxt, 58) THEN [ok |-> TRUE, h |-> h.v, m |-> 0, sec |-> 0, nxt |-> h.nxt]
  ELSE LET m == NumAt(s, h.nxt + 1) IN
       IF m.v < 0 THEN Fail
       ELSE IF ~At(s, m.nxt, 58) THEN [ok |-> TRUE, h |-> h.v, m |-> m.v, sec |-> 0, nxt |-> m.nxt]
       ELSE LET sc == NumAt(s, m.nxt + 1) IN
            IF sc.v < 0 THEN Fail ELSE [ok |-> TRUE, h |-> h.v, m |-> m.v, sec |-> sc.v, nxt |-> sc.nxt]
\* [+-]h[:m[:s]] with the sign applying to the whole value; hour <= maxH
ParseSigned(s, i, maxH) ==
  LET sg == IF At(s, i, 45) THEN -1 ELSE 1
      st == IF At(s, i, 45) \/ At(s, i, 43) THEN i + 1 ELSE i
      x == ParseHms(s, st)
  IN IF ~x.ok \/ x.h > maxH \/ x.m > 59 \/ x.sec > 59 THEN Fail
     ELSE [ok |-> TRUE, v |-> sg * (x.h * 3600 + x.m * 60 + x.sec), nxt |-> x.nxt]
\* offsets count positive west of Greenwich
ParseOffset(s, i) == ParseSigned(s, i, 24)
\* transition time: plain mode unsigned 0..24 h; extended mode signed up to 167 h
ParseTime(s, i, ext) ==
  IF ext THEN ParseSigned(s, i, 167)
  ELSE IF At(s, i, 45) \/ At(s, i, 43) THEN Fail ELSE ParseSigned(s, i, 24)
ParseDay(s, i) ==
  IF At(s, i, 74) THEN                                         \* Jn, 1..365
     LET n == NumAt(s, i + 1) IN IF n.v \in 1..365 THEN [ok |-> TRUE, d |-> <<"J", n.v>>, nxt |-> n.nxt] ELSE Fail
  ELSE IF At(s, i, 77) THEN                                    \* Mm.w.d
     LET m == NumAt(s, i + 1) IN
     IF m.v \notin 1..12 \/ ~At(s, m.nxt, 46) THEN Fail
     ELSE LET w == NumAt(s, m.nxt + 1) IN
          IF w.v \notin 1..5 \/ ~At(s, w.nxt, 46) THEN Fail
          ELSE LET d == NumAt(s, w.nxt + 1) IN
               IF d.v \notin 0..6 THEN Fail ELSE [ok |-> TRUE, d |-> <<"M", m.v, w.v, d.v>>, nxt |-> d.nxt]
  ELSE LET n == NumAt(s, i) IN IF n.v \in 0..365 THEN [ok |-> TRUE, d |-> <<"Z", n.v>>, nxt |-> n.nxt] ELSE Fail
\* date[/time]; a missing time means 02:00:00
ParseRulePart(s, i, ext) ==
  LET d == ParseDay(s, i) IN
  IF ~d.ok THEN Fail
  ELSE IF At(s, d.nxt, 47) THEN
       LET t == ParseTime(s, d.nxt + 1, ext) IN IF ~t.ok THEN Fail ELSE [ok |-> TRUE, d |-> d.d, t |-> t.v, nxt |-> t.nxt]
  ELSE [ok |-> TRUE, d |-> d.d, t |-> 7200, nxt |-> d.nxt]

MkLtt(off, dst, nm) == [off |-> off, dst |-> dst, des |-> nm]
\* the whole description; s has no surrounding whitespace
ParseTz(s, ext) ==
  LET n1 == ParseName(s, 1) IN
  IF ~n1.ok \/ ~NameOK(n1.name) THEN Fail
  ELSE LET o1 == ParseOffset(s, n1.nxt) IN
  IF ~o1.ok THEN Fail
  ELSE IF o1.nxt > Len(s) THEN [ok |-> TRUE, rule |-> [k |-> "fixed", t |-> MkLtt(-o1.v, 0, n1.name)]]
  ELSE LET n2 == ParseName(s, o1.nxt) IN
  IF ~n2.ok \/ ~NameOK(n2.name) THEN Fail
  ELSE IF n2.nxt > Len(s) THEN Fail                              \* a DST name without rules
  ELSE LET hasOff == ~At(s, n2.nxt, 44)
           o2 == IF hasOff THEN ParseOffset(s, n2.nxt) ELSE [ok |-> TRUE, v |-> o1.v - 3600, nxt |-> n2.nxt]   \* default: one hour ahead
       IN
  IF ~o2.ok \/ ~At(s, o2.nxt, 44) THEN Fail
  ELSE LET p1 == ParseRulePart(s, o2.nxt + 1, ext) IN
  IF ~p1.ok \/ ~At(s, p1.nxt, 44) THEN Fail
  ELSE LET p2 == ParseRulePart(s, p1.nxt + 1, ext) IN
  IF ~p2.ok \/ p2.nxt <= Len(s) THEN Fail                        \* trailing characters
  ELSE LET rule == [k |-> "alt", std |-> MkLtt(-o1.v, 0, n1.name), dst |-> MkLtt(-o2.v, 1, n2.name),
                    sd |-> p1.d, st |-> p1.t, ed |-> p2.d, et |-> p2.t]
       IN IF RuleVerdict(rule).ok = {} THEN Fail ELSE [ok |-> TRUE, rule |-> rule]
=============================================================================
