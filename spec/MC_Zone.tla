------------------------------ MODULE MC_Zone ------------------------------
(***************************************************************************)
(* Scaled zone model (C03, C05, C06, C12, C17): every zone with at most    *)
(* MaxTr transitions on the grid 0..6 (seconds after the epoch), a menu of *)
(* type lists (equal offsets, repeated indices, no-op transitions          *)
(* included), leap table none / one record +-1, trailing rule none / fixed.*)
(* tz-rs accepts such second-scale zones as they are, so every state is    *)
(* also a test vector.  TLC checks the spec-level theorems the properties  *)
(* rest on and prints spec -> impl vectors.                                *)
(***************************************************************************)
EXTENDS Algo, TLC, Json, SequencesExt
CONSTANTS MaxTr, EmitVec, EmitMod, EmitRem
VARIABLES vPh, vZ, vZa, vPk    \* phase; zone (spec record); zone (wire arguments); probe second
vars == <<vPh, vZ, vZa, vPk>>

G(s) == CNorm(4, DBYTab[370], s)          \* second s of 1970-01-01
Des(i) == <<64 + i, 64 + i, 64 + i>>
Ty(off, dst, i) == [off |-> off, dst |-> dst, des |-> Des(i)]
Menus == << <<Ty(0, 0, 1)>>,
            <<Ty(0, 0, 1), Ty(1, 1, 2)>>,
            <<Ty(-2, 0, 1), Ty(2, 1, 2)>>,
            <<Ty(1, 0, 1), Ty(1, 0, 2), Ty(-1, 1, 3)>>,
            <<Ty(0, 0, 1), Ty(3, 1, 2), Ty(-3, 0, 3)>> >>
LeapTables == { <<>>, <<[r |-> 2, c |-> 1]>>, <<[r |-> 2, c |-> -1]>>, <<[r |-> 0, c |-> 1]>>, <<[r |-> 3, c |-> -1]>>, <<[r |-> 4, c |-> 1]>> }
Grid == 0..6
TimeSets == {S \in SUBSET Grid : Cardinality(S) <= MaxTr}
SortedSeq(S) == SetToSortSeq(S, <)

MkZ(times, menu, ixs, lp, rule) ==
  [tr |-> [i \in 1..Len(times) |-> [t |-> G(times[i]), ix |-> ixs[i]]],
   ty |-> menu,
   lp |-> [i \in 1..Len(lp) |-> [r |-> G(lp[i].r), c |-> lp[i].c]],
   rule |-> rule, sum |-> NoSummary]
MkZA(times, menu, ixs, lp, rule) ==
  [tr |-> [i \in 1..Len(times) |-> <<CDSToW(G(times[i])), ixs[i]>>],
   ty |-> menu,
   lp |-> [i \in 1..Len(lp) |-> <<CDSToW(G(lp[i].r)), lp[i].c>>],
   rule |-> rule, via |-> "owned"]

Init == vPh = 0 /\ vZ = UtcZone /\ vZa = <<>> /\ vPk = 0
PickZone ==
  /\ vPh = 0 /\ vPh' = 1 /\ vPk' = 0
  /\ \E S \in TimeSets : \E m \in 1..Len(Menus) : \E lp \in LeapTables :
       LET times == SortedSeq(S) menu == Menus[m] IN
       \E ixs \in [1..Len(times) -> 0..(Len(menu) - 1)] :
       \E rk \in {"none", "fixed"} :
         LET rule == IF rk = "none" THEN [k |-> "none"]
                     ELSE [k |-> "fixed", t |-> IF Len(times) = 0 THEN menu[1] ELSE menu[ixs[Len(times)] + 1]]
         IN vZ' = MkZ(times, menu, ixs, lp, rule) /\ vZa' = MkZA(times, menu, ixs, lp, rule)
Probe == /\ vPh = 1 /\ vPh' = 2 /\ vPk' \in -7..14 /\ UNCHANGED <<vZ, vZa>>
Next == PickZone \/ Probe
Spec == Init /\ [][Next]_vars

\* ------------------------------ theorems --------------------------------
U == G(vPk)
RoundTrip == LET c == ClockAt(vZ, U) IN c[1] => <<U, c>> \in ValidInstants(vZ, CAddSec(U, c[2].off))
LeapLaws ==
  /\ CLe(ToLeap(vZ.lp, U), ToLeap(vZ.lp, CAddSec(U, 1)))                        \* monotone
  /\ CLe(ToUnix(vZ.lp, U), ToUnix(vZ.lp, CAddSec(U, 1)))
  /\ (~Deleted(vZ.lp, U) => ToUnix(vZ.lp, ToLeap(vZ.lp, U)) = U)                 \* round trip
  /\ ToLeap(vZ.lp, ToUnix(vZ.lp, U)) \in {U, CAddSec(U, 1)}
  /\ \A i \in 1..Len(vZ.lp) : Inserted(vZ.lp, i) => ToUnix(vZ.lp, vZ.lp[i].r) = ToUnix(vZ.lp, CAddSec(vZ.lp[i].r, 1))
  /\ ~Deleted(vZ.lp, ToUnix(vZ.lp, U))
\* the instant reported for a transition is the instant at which the forward lookup switches
SwitchPoint == \A i \in 1..NTr(vZ) : LET tu == ToUnix(vZ.lp, vZ.tr[i].t) IN
                  CLe(vZ.tr[i].t, ToLeap(vZ.lp, tu)) /\ CLt(ToLeap(vZ.lp, CAddSec(tu, -1)), vZ.tr[i].t)
Bounded == Cardinality(ValidInstants(vZ, U)) <= Cardinality(ZoneOffsets(vZ))
\* every local time whose candidates the zone covers is shown or lies in a gap
Total == (\A u \in Candidates(vZ, U) : ClockAt(vZ, u)[1]) => (ValidInstants(vZ, U) # {} \/ Gaps(vZ, U) # {})
\* the clock changes only at transition instants
OnlyAtTransitions ==
  LET a == ClockAt(vZ, CAddSec(U, -1)) b == ClockAt(vZ, U) IN
  (a[1] /\ b[1] /\ a[2] # b[2]) => \E i \in 1..NTr(vZ) : ToUnix(vZ.lp, vZ.tr[i].t) = U \/ Deleted(vZ.lp, CAddSec(U, -1))
\* the algorithm layer (Algo.tla: the walks shaped like the Rust) refines the declarative definitions on every scaled zone
AlgoRefines == /\ ALeapRefines(vZ.lp, U) /\ ATypeRefines(vZ, U)
               /\ LET cv == Civil(U) IN AFindRefines(vZ, [y |-> YInt(cv.c, cv.yic), mo |-> cv.mo, d |-> cv.d, h |-> cv.h, mi |-> cv.mi, s |-> cv.s], 7)
Theorems == vPh = 2 => (RoundTrip /\ LeapLaws /\ SwitchPoint /\ Bounded /\ Total /\ OnlyAtTransitions /\ AlgoRefines)

\* ------------------------------ vectors ---------------------------------
OutVec(out) == {[ok |-> v] : v \in out.ok} \cup {[err |-> e] : e \in out.err}
Fields(L) == LET cv == Civil(L) IN [y |-> YInt(cv.c, cv.yic), mo |-> cv.mo, d |-> cv.d, h |-> cv.h, mi |-> cv.mi, s |-> cv.s, ns |-> 7]
ExpectedFind(f) ==
  LET exp == Expected(vZ, f, 7)
      distinct == \A a, b \in exp : a # b => EntryInstant(a) # EntryInstant(b)
      list == SetToSortSeq(exp, LAMBDA a, b : WLt(EntryInstant(a), EntryInstant(b)))
      acc == AccessorsOf(list)
  IN IF distinct THEN {[ok |-> [list |-> list, unique |-> acc.unique, earliest |-> acc.earliest, latest |-> acc.latest]]} ELSE {}
Emit == (EmitVec /\ vPh = 2 /\ vPk % EmitMod = EmitRem) =>
  /\ PrintT(<<"VEC", ToJson([zk |-> vZa, op |-> "lookup", a |-> [u |-> CDSToW(U), via |-> IF vPk % 2 = 0 THEN "ref" ELSE "owned"], x |-> OutVec(Lookup(vZ, U))])>>)
  /\ PrintT(<<"VEC", ToJson([zk |-> vZa, op |-> "localtime", a |-> [u |-> CDSToW(U), ns |-> 3], x |-> OutVec(Localtime(vZ, U, 3))])>>)
  /\ LET f == Fields(U) x == ExpectedFind(f) IN
       IF x = {} THEN PrintT(<<"VEC", ToJson([zk |-> vZa, op |-> "find", a |-> f])>>)
       ELSE PrintT(<<"VEC", ToJson([zk |-> vZa, op |-> "find", a |-> f, x |-> x])>>)
Inv == Theorems /\ Emit
=============================================================================
