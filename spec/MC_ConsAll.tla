----------------------------- MODULE MC_ConsAll -----------------------------
(***************************************************************************)
(* C11, exhaustive over day-notation pairs (thorough tier).  One state per *)
(* ordered pair (start id, end id); for each pair TLC computes, from the    *)
(* definition of the yearly rule days over the whole 400-year cycle, the   *)
(* six integers that decide acceptance for every d (see MC_Cons.tla, where *)
(* the derivation is checked against the literal definition) and prints    *)
(* ONE line: the pair and, for every decision breakpoint k*86400 + {-1,0,1}*)
(* inside the reachable range of d, the verdict.  A native sweep then      *)
(* calls the real constructor at each of them with several time/offset     *)
(* splits.  Sharded over JVMs by the set of start ids.                     *)
(***************************************************************************)
EXTENDS Rule, TLC, Json
CONSTANTS StartLo, StartHi          \* start ids StartLo..StartHi ; end ids 1..1151
VARIABLES vPh, vS, vE
vars == <<vPh, vS, vE>>
NdOf(id) == IF id <= 365 THEN <<"J", id>>
            ELSE IF id <= 731 THEN <<"Z", id - 366>>
            ELSE LET i == id - 732 IN <<"M", (i \div 35) + 1, ((i % 35) \div 7) + 1, i % 7>>
\* yearly rule-day tables, one row per notation, evaluated once (bound names are deliberately unusual)
DoyTab == [idT \in 1..1151 |-> [yT \in 0..399 |-> RuleDoy(NdOf(idT), yT)]]
Init == vPh = 0 /\ vS \in StartLo..StartHi /\ vE = 0
Next == vPh = 0 /\ vPh' = 1 /\ vS' = vS /\ vE' \in 1..1151
Spec == Init /\ [][Next]_vars
SetMin(S) == CHOOSE x \in S : \A z \in S : x <= z
SetMax(S) == CHOOSE x \in S : \A z \in S : z <= x
DMax == 1393200
Line ==
  LET ds == DoyTab[vS] de == DoyTab[vE]
      A == {ds[yy] - de[yy] : yy \in 0..399}
      B == {DBYTab[yy] + de[yy] - DBYTab[yy + 1] - ds[(yy + 1) % 400] : yy \in 0..399}
      CC == {DBYTab[yy] + ds[yy] - DBYTab[yy + 1] - de[(yy + 1) % 400] : yy \in 0..399}
      minA == SetMin(A) maxA == SetMax(A) minB == SetMin(B) maxB == SetMax(B) minC == SetMin(CC) maxC == SetMax(CC)
      ok(dd) == /\ (minA * 86400 + dd >= 0 \/ maxA * 86400 + dd <= 0)
                /\ (minB * 86400 - dd >= 0 \/ maxB * 86400 - dd <= 0)
                /\ (minC * 86400 + dd >= 0 \/ maxC * 86400 + dd <= 0)
      bps == {-minA * 86400, -maxA * 86400, minB * 86400, maxB * 86400, -minC * 86400, -maxC * 86400}
      tds == {dd \in {b + e : b \in bps, e \in {-1, 0, 1}} \cup {0, 3600, -3600} : -DMax < dd /\ dd < DMax}
  IN [sd |-> NdOf(vS), ed |-> NdOf(vE), dv |-> {<<dd, IF ok(dd) THEN 1 ELSE 0>> : dd \in tds}]
Emit == vPh = 1 => PrintT(<<"VEC", ToJson(Line)>>)
=============================================================================
