---------------------------- MODULE MC_TzString ----------------------------
(***************************************************************************)
(* C09 at the specification level.                                         *)
(*  Part A (generative): sentences are assembled from components each of   *)
(*  which carries its denotation (or the mark "bad"); the recogniser must   *)
(*  return exactly the rule composed from the components' denotations, in  *)
(*  both extension modes, and reject when any component is bad.            *)
(*  Part B (bounded-exhaustive): every string of at most MaxTok tokens of  *)
(*  a grammar alphabet; the recogniser's verdict becomes a vector.         *)
(***************************************************************************)
EXTENDS TzString, TLC, Json
CONSTANTS EmitVec, MaxTok, PartA, PartB
VARIABLES vPh, vStr, vExp        \* vExp: expected [ok, rule] in plain mode and extended mode: <<plain, ext>>
vars == <<vPh, vStr, vExp>>

Names == {[b |-> <<69, 83, 84>>, bad |-> FALSE, v |-> <<69, 83, 84>>],
          [b |-> <<60, 45, 48, 51, 62>>, bad |-> FALSE, v |-> <<45, 48, 51>>],
          [b |-> <<60, 43, 48, 53, 51, 48, 62>>, bad |-> FALSE, v |-> <<43, 48, 53, 51, 48>>],
          [b |-> <<65, 66, 67, 68, 69, 70, 71>>, bad |-> FALSE, v |-> <<65, 66, 67, 68, 69, 70, 71>>],
          [b |-> <<65, 66>>, bad |-> TRUE, v |-> <<>>],
          [b |-> <<65, 66, 67, 68, 69, 70, 71, 72>>, bad |-> TRUE, v |-> <<>>],
          [b |-> <<60, 65, 32, 66, 62>>, bad |-> TRUE, v |-> <<>>],
          [b |-> <<60, 65, 66, 67>>, bad |-> TRUE, v |-> <<>>]}
Offsets == {[b |-> <<53, 58, 51, 48, 58, 54, 48>>, bad |-> TRUE, v |-> 0],
            [b |-> <<53, 58, 51, 48, 58, 53, 57>>, bad |-> FALSE, v |-> 19859],
            [b |-> <<53, 58, 51, 48, 58, 49, 53, 58>>, bad |-> TRUE, v |-> 0],
            [b |-> <<53, 58, 58, 51, 48>>, bad |-> TRUE, v |-> 0],
            [b |-> <<53>>, bad |-> FALSE, v |-> 18000],
            [b |-> <<48, 53>>, bad |-> FALSE, v |-> 18000],
            [b |-> <<43, 53>>, bad |-> FALSE, v |-> 18000],
            [b |-> <<45, 53>>, bad |-> FALSE, v |-> -18000],
            [b |-> <<53, 58, 51, 48>>, bad |-> FALSE, v |-> 19800],
            [b |-> <<45, 48, 58, 51, 48>>, bad |-> FALSE, v |-> -1800],
            [b |-> <<53, 58, 51, 48, 58, 49, 53>>, bad |-> FALSE, v |-> 19815],
            [b |-> <<50, 52>>, bad |-> FALSE, v |-> 86400],
            [b |-> <<50, 53>>, bad |-> TRUE, v |-> 0],
            [b |-> <<50, 52, 58, 53, 57, 58, 53, 57>>, bad |-> FALSE, v |-> 89999],
            [b |-> <<48>>, bad |-> FALSE, v |-> 0],
            [b |-> <<45, 49, 48>>, bad |-> FALSE, v |-> -36000],
            [b |-> <<53, 58, 54, 48>>, bad |-> TRUE, v |-> 0],
            [b |-> <<53, 58>>, bad |-> TRUE, v |-> 0],
            [b |-> <<>>, bad |-> TRUE, v |-> 0],
            [b |-> <<48, 48, 48, 48, 48, 48, 48, 48, 48, 48, 48, 48, 53>>, bad |-> FALSE, v |-> 18000],
            [b |-> <<52, 50, 57, 52, 57, 54, 55, 50, 57, 55>>, bad |-> TRUE, v |-> 0],
            [b |-> <<45, 50, 52, 58, 53, 57, 58, 53, 57>>, bad |-> FALSE, v |-> -89999]}
Days == {[b |-> <<77, 51, 46, 50, 46, 48>>, bad |-> FALSE, v |-> <<"M", 3, 2, 0>>],
         [b |-> <<77, 49, 49, 46, 49, 46, 48>>, bad |-> FALSE, v |-> <<"M", 11, 1, 0>>],
         [b |-> <<74, 54, 48>>, bad |-> FALSE, v |-> <<"J", 60>>],
         [b |-> <<74, 51, 48, 48>>, bad |-> FALSE, v |-> <<"J", 300>>],
         [b |-> <<53, 57>>, bad |-> FALSE, v |-> <<"Z", 59>>],
         [b |-> <<51, 48, 48>>, bad |-> FALSE, v |-> <<"Z", 300>>],
         [b |-> <<74, 48>>, bad |-> TRUE, v |-> <<"X">>],
         [b |-> <<74, 51, 54, 54>>, bad |-> TRUE, v |-> <<"X">>],
         [b |-> <<51, 54, 54>>, bad |-> TRUE, v |-> <<"X">>],
         [b |-> <<77, 49, 51, 46, 49, 46, 48>>, bad |-> TRUE, v |-> <<"X">>],
         [b |-> <<77, 51, 46, 54, 46, 48>>, bad |-> TRUE, v |-> <<"X">>],
         [b |-> <<77, 51, 46, 50, 46, 55>>, bad |-> TRUE, v |-> <<"X">>],
         [b |-> <<77, 51, 46, 50>>, bad |-> TRUE, v |-> <<"X">>],
         [b |-> <<48>>, bad |-> FALSE, v |-> <<"Z", 0>>],
         [b |-> <<51, 54, 53>>, bad |-> FALSE, v |-> <<"Z", 365>>],
         [b |-> <<74, 51, 54, 53>>, bad |-> FALSE, v |-> <<"J", 365>>],
         [b |-> <<77, 53, 46, 53, 46, 54>>, bad |-> FALSE, v |-> <<"M", 5, 5, 6>>],
         [b |-> <<77, 48, 46, 49, 46, 48>>, bad |-> TRUE, v |-> <<"X">>],
         [b |-> <<77, 51, 46, 48, 46, 48>>, bad |-> TRUE, v |-> <<"X">>],
         [b |-> <<>>, bad |-> TRUE, v |-> <<"X">>]}
TimesC == {[b |-> <<47, 50, 58, 48, 48, 58, 54, 48>>, pbad |-> TRUE, p |-> 0, ebad |-> TRUE, e |-> 0],
           [b |-> <<47, 50, 58, 48, 48, 58, 53, 57>>, pbad |-> FALSE, p |-> 7259, ebad |-> FALSE, e |-> 7259],
           [b |-> <<47, 49, 54, 55, 58, 53, 57, 58, 53, 57>>, pbad |-> TRUE, p |-> 0, ebad |-> FALSE, e |-> 604799],
           [b |-> <<47, 50, 58, 48, 48, 58, 48, 48, 58>>, pbad |-> TRUE, p |-> 0, ebad |-> TRUE, e |-> 0],
           [b |-> <<47, 43>>, pbad |-> TRUE, p |-> 0, ebad |-> TRUE, e |-> 0],
           [b |-> <<>>, pbad |-> FALSE, p |-> 7200, ebad |-> FALSE, e |-> 7200],
           [b |-> <<47, 50>>, pbad |-> FALSE, p |-> 7200, ebad |-> FALSE, e |-> 7200],
           [b |-> <<47, 48>>, pbad |-> FALSE, p |-> 0, ebad |-> FALSE, e |-> 0],
           [b |-> <<47, 50, 52>>, pbad |-> FALSE, p |-> 86400, ebad |-> FALSE, e |-> 86400],
           [b |-> <<47, 50, 53>>, pbad |-> TRUE, p |-> 0, ebad |-> FALSE, e |-> 90000],
           [b |-> <<47, 45, 49>>, pbad |-> TRUE, p |-> 0, ebad |-> FALSE, e |-> -3600],
           [b |-> <<47, 43, 50>>, pbad |-> TRUE, p |-> 0, ebad |-> FALSE, e |-> 7200],
           [b |-> <<47, 49, 54, 55>>, pbad |-> TRUE, p |-> 0, ebad |-> FALSE, e |-> 601200],
           [b |-> <<47, 49, 54, 56>>, pbad |-> TRUE, p |-> 0, ebad |-> TRUE, e |-> 0],
           [b |-> <<47, 50, 58, 51, 48>>, pbad |-> FALSE, p |-> 9000, ebad |-> FALSE, e |-> 9000],
           [b |-> <<47, 45, 48, 58, 51, 48>>, pbad |-> TRUE, p |-> 0, ebad |-> FALSE, e |-> -1800],
           [b |-> <<47, 50, 52, 58, 53, 57, 58, 53, 57>>, pbad |-> FALSE, p |-> 89999, ebad |-> FALSE, e |-> 89999],
           [b |-> <<47>>, pbad |-> TRUE, p |-> 0, ebad |-> TRUE, e |-> 0],
           [b |-> <<47, 50, 58, 54, 48>>, pbad |-> TRUE, p |-> 0, ebad |-> TRUE, e |-> 0],
           [b |-> <<47, 45, 49, 54, 55, 58, 53, 57, 58, 53, 57>>, pbad |-> TRUE, p |-> 0, ebad |-> FALSE, e |-> -604799],
           [b |-> <<47, 48, 50, 58, 48, 48, 58, 48, 48>>, pbad |-> FALSE, p |-> 7200, ebad |-> FALSE, e |-> 7200]}
DstOffs == {[b |-> <<>>, bad |-> FALSE, v |-> 0, dflt |-> TRUE]} \cup {[b |-> o.b, bad |-> o.bad, v |-> o.v, dflt |-> FALSE] : o \in {q \in Offsets : q.b # <<>> /\ Len(q.b) <= 4}}
\* (surrounding ASCII whitespace is trimmed by both public paths before the description is decoded: C20 owns that)
Tails == {[b |-> <<>>, bad |-> FALSE], [b |-> <<120>>, bad |-> TRUE], [b |-> <<44>>, bad |-> TRUE], [b |-> <<32, 120>>, bad |-> TRUE]}

Ltt(off, dst, nm) == [off |-> off, dst |-> dst, des |-> nm]
\* base sentence: EST5EDT,M3.2.0,M11.1.0 ; each family varies one or two slots over all their options
BaseN1 == CHOOSE q \in Names : q.b = <<69, 83, 84>>
BaseN2 == [b |-> <<69, 68, 84>>, bad |-> FALSE, v |-> <<69, 68, 84>>]
BaseO1 == CHOOSE q \in Offsets : q.b = <<53>>
BaseO2 == CHOOSE q \in DstOffs : q.dflt
BaseD1 == CHOOSE q \in Days : q.b = <<77, 51, 46, 50, 46, 48>>
BaseD2 == CHOOSE q \in Days : q.b = <<77, 49, 49, 46, 49, 46, 48>>
BaseT == CHOOSE q \in TimesC : q.b = <<>>
BaseTl == CHOOSE q \in Tails : q.b = <<>>
AsDst(o) == [b |-> o.b, bad |-> o.bad, v |-> o.v, dflt |-> FALSE]
MkAlt(nm, of, nm2, of2, d1, t1, d2, t2, tl) ==
   /\ vStr' = nm.b \o of.b \o nm2.b \o of2.b \o <<44>> \o d1.b \o t1.b \o <<44>> \o d2.b \o t2.b \o tl.b
   /\ LET badCommon == nm.bad \/ of.bad \/ nm2.bad \/ of2.bad \/ d1.bad \/ d2.bad \/ tl.bad \/ of.b = <<>>
          dstoff == IF of2.dflt THEN of.v - 3600 ELSE of2.v
          mk(st, et) == LET rule == [k |-> "alt", std |-> Ltt(-of.v, 0, nm.v), dst |-> Ltt(-dstoff, 1, nm2.v), sd |-> d1.v, st |-> st, ed |-> d2.v, et |-> et]
                        IN IF RuleVerdict(rule).ok = {} THEN Fail ELSE [ok |-> TRUE, rule |-> rule]
          ep == IF badCommon \/ t1.pbad \/ t2.pbad THEN Fail ELSE mk(t1.p, t2.p)
          ee == IF badCommon \/ t1.ebad \/ t2.ebad THEN Fail ELSE mk(t1.e, t2.e)
      IN vExp' = <<ep, ee>>
AltA ==
  \/ \E nm \in Names, of \in Offsets : MkAlt(nm, of, BaseN2, BaseO2, BaseD1, BaseT, BaseD2, BaseT, BaseTl)
  \/ \E nm2 \in Names, of2 \in DstOffs : MkAlt(BaseN1, BaseO1, nm2, of2, BaseD1, BaseT, BaseD2, BaseT, BaseTl)
  \/ \E of \in {q \in Offsets : q.b # <<>>}, of2 \in DstOffs : MkAlt(BaseN1, of, BaseN2, of2, BaseD1, BaseT, BaseD2, BaseT, BaseTl)
  \/ \E d1 \in Days, t1 \in TimesC : MkAlt(BaseN1, BaseO1, BaseN2, BaseO2, d1, t1, BaseD2, BaseT, BaseTl)
  \/ \E d2 \in Days, t2 \in TimesC : MkAlt(BaseN1, BaseO1, BaseN2, BaseO2, BaseD1, BaseT, d2, t2, BaseTl)
  \/ \E t1 \in TimesC, t2 \in TimesC : MkAlt(BaseN1, BaseO1, BaseN2, BaseO2, BaseD1, t1, BaseD2, t2, BaseTl)
  \/ \E d1 \in Days, d2 \in Days : MkAlt(BaseN1, BaseO1, BaseN2, BaseO2, d1, BaseT, d2, BaseT, BaseTl)
  \/ \E tl \in Tails, t2 \in TimesC : MkAlt(BaseN1, BaseO1, BaseN2, BaseO2, BaseD1, BaseT, BaseD2, t2, tl)
FixedA == \E nm \in Names, of \in Offsets, tl \in Tails :
   /\ vStr' = nm.b \o of.b \o tl.b
   /\ LET e == IF nm.bad \/ of.bad \/ tl.bad THEN Fail ELSE [ok |-> TRUE, rule |-> [k |-> "fixed", t |-> Ltt(-of.v, 0, nm.v)]]
      IN vExp' = <<e, e>>
\* a DST name without rules, a missing comma, and similar truncations
TruncA == \E cut \in 1..21 :
   LET full == <<69, 83, 84, 53, 69, 68, 84, 44, 77, 51, 46, 50, 46, 48, 44, 77, 49, 49, 46, 49, 46, 48>> IN     \* EST5EDT,M3.2.0,M11.1.0
   /\ vStr' = SubSeq(full, 1, cut)
   /\ LET e == IF cut = 4 THEN [ok |-> TRUE, rule |-> [k |-> "fixed", t |-> Ltt(-18000, 0, <<69, 83, 84>>)]] ELSE Fail IN vExp' = <<e, e>>
\* Part B: all short token strings (initial states choose the first token so that the enumeration is shared by all workers)
Tokens == << <<69, 83, 84>>, <<69, 68, 84>>, <<60, 45, 48, 51, 62>>, <<53>>, <<45>>, <<43>>, <<58>>, <<51, 48>>, <<44>>, <<47>>, <<77, 51, 46, 50, 46, 48>>,
             <<74, 54, 48>>, <<51, 48, 48>>, <<50>>, <<50, 54>>, <<46>>, <<77>>, <<74>>, <<60>>, <<62>> >>
RECURSIVE Cat(_)
Cat(ts) == IF ts = <<>> THEN <<>> ELSE Tokens[Head(ts)] \o Cat(Tail(ts))
Init == \/ vPh = 0 /\ vStr = <<>> /\ vExp = <<>>
        \/ PartB /\ vPh = 5 /\ vExp = <<>> /\ \E t \in 1..Len(Tokens) : vStr = Tokens[t]
TokB == /\ vPh = 5 /\ vPh' = 1
        /\ \E n \in 0..(MaxTok - 1) : \E ts \in [1..n -> 1..Len(Tokens)] :
             LET str == vStr \o Cat(ts) IN vStr' = str /\ vExp' = <<ParseTz(str, FALSE), ParseTz(str, TRUE)>>
Next == \/ PartA /\ vPh = 0 /\ vPh' = 1 /\ (FixedA \/ AltA \/ TruncA)
        \/ TokB
Spec == Init /\ [][Next]_vars
\* the recogniser returns exactly the composed denotation; plain-mode sentences mean the same with extensions
Denotes == vPh = 1 => /\ ParseTz(vStr, FALSE) = vExp[1] /\ ParseTz(vStr, TRUE) = vExp[2]
                      /\ (vExp[1].ok => vExp[2] = vExp[1])
                      /\ TrimWs(<<32, 10>> \o vStr \o <<9, 13, 12>>) = TrimWs(vStr)
Vec(via, p) ==
  IF p.ok THEN [op |-> "tzstring", a |-> [s |-> vStr, via |-> via],
                x |-> {[ok |-> [rule |-> p.rule, ntypes |-> IF via = "settings" /\ p.rule.k = "alt" THEN 2 ELSE 1, ntr |-> 0]]}]
  ELSE [op |-> "tzstring", a |-> [s |-> vStr, via |-> via], xerr |-> 1]
Emit == (EmitVec /\ vPh = 1 /\ vStr # <<>>) =>
  /\ PrintT(<<"VEC", ToJson(Vec("v2", vExp[1]))>>)
  /\ PrintT(<<"VEC", ToJson(Vec("v3", vExp[2]))>>)
  /\ PrintT(<<"VEC", ToJson(Vec("settings", vExp[1]))>>)
Inv == Denotes /\ Emit
=============================================================================
