SPECIFICATION Spec
INVARIANT Report
CHECK_DEADLOCK FALSE
