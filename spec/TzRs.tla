-------------------------------- MODULE TzRs --------------------------------
(***************************************************************************)
(* The system: a client session of the tz-rs library.                      *)
(*                                                                         *)
(* tz-rs is a sequential, almost purely functional library; what a client  *)
(* can observe as *state* is                                               *)
(*   zone  - the zone it currently works with (built, decoded or resolved) *)
(*   buf   - its search buffer, which survives from one find_n to the next *)
(*   reads - the files the library asked for while resolving a TZ value    *)
(*   dts   - the date-time values it has been handed so far                *)
(*   last  - the last call and its result (observation)                    *)
(* One action per public API call, taken at the call's return (the         *)
(* linearization point of a sequential library).  Each action's result is  *)
(* the outcome the per-area modules prescribe (Zone, Rule, Find, DateTime, *)
(* Format, TzString, TzFile, Resolve); the listed properties are state     *)
(* invariants and action properties of this machine.  TzRsTrace.tla reuses *)
(* the same operators to replay recorded executions of the real crate.     *)
(*                                                                         *)
(* Arguments are drawn from small CONSTANT menus so that TLC can explore   *)
(* sessions exhaustively (MC_TzRs.cfg).                                    *)
(***************************************************************************)
EXTENDS Find, Format, TzString, TzFile, Resolve, TLC

CONSTANTS Zones,        \* menu of zone argument tuples (wire shape [tr, ty, lp, rule]), valid and invalid
          Instants,     \* menu of wide Unix times
          LocalTimes,   \* menu of field records [y, mo, d, h, mi, s]
          Files,        \* menu of byte sequences offered to the decoder
          TzValues,     \* menu of TZ values (byte sequences)
          Rules,        \* menu of DST rule argument records [std, dst, sd, st, ed, et], accepted and refused ones
          TzStrings,    \* menu of TZ descriptions (byte sequences), sentences and non-sentences
          Nanos,        \* menu of wide total-nanosecond counts
          Dirs,         \* the configured zoneinfo directories
          Vfs,          \* the virtual file system: sequence of <<path, content>>
          MaxSteps

VARIABLES zone, buf, reads, dts, last, steps
vars == <<zone, buf, reads, dts, last, steps>>

EmptyBuf == [i \in 1..4 |-> <<>>]
NoCall == [op |-> "none"]
Init == zone = UtcZone /\ buf = EmptyBuf /\ reads = <<>> /\ dts = {} /\ last = NoCall /\ steps = 0

Tick == steps < MaxSteps /\ steps' = steps + 1
\* an outcome specification [ok, err] is resolved nondeterministically among the outcomes it admits
Outcomes(out) == {[ok |-> v] : v \in out.ok} \cup {[err |-> e] : e \in out.err}

\* ---- zone construction (C13): both constructors, one verdict ----
MakeZone == /\ Tick /\ \E za \in Zones :
              LET z == MkZone(za) v == ZoneVerdict(z) IN
              \E accept \in {TRUE, FALSE} :
                /\ (accept => v = {} \/ "ok-or" \in v) /\ (~accept => v \ {"ok-or"} # {})
                /\ zone' = IF accept THEN z ELSE UtcZone
                /\ buf' = EmptyBuf
                /\ last' = [op |-> "zone", a |-> za, accepted |-> accept, errs |-> v \ {"ok-or"}]
                /\ UNCHANGED <<reads, dts>>
\* ---- decoding (C08) ----
DecodeFile == /\ Tick /\ \E b \in Files :
                LET dd == Decode(b) IN
                /\ "unspecified" \notin DOMAIN dd
                /\ zone' = IF dd.ok THEN MkZone(dd.zone) ELSE UtcZone
                /\ buf' = EmptyBuf
                /\ last' = [op |-> "tzif", a |-> b, accepted |-> dd.ok]
                /\ UNCHANGED <<reads, dts>>
\* ---- resolution (C20): the only action that issues read requests ----
ResolveTz == /\ Tick /\ \E s \in TzValues :
               LET rs == Resolve(s, Dirs, Vfs) IN
               /\ rs.out.kind # "any"
               /\ reads' = rs.reads
               /\ zone' = IF rs.out.kind = "zone" THEN MkZone(rs.out.zone) ELSE zone
               /\ last' = [op |-> "resolve", a |-> s, kind |-> rs.out.kind]
               /\ UNCHANGED <<buf, dts>>
\* ---- localtime (C03, C04, C12) ----
LookupType == /\ Tick /\ \E uw \in Instants :
                \E r \in Outcomes(Lookup(zone, WToCDS(uw))) :
                  /\ last' = [op |-> "lookup", a |-> uw, r |-> r]
                  /\ UNCHANGED <<zone, buf, reads, dts>>
Localtime1 == /\ Tick /\ \E uw \in Instants :
                \E r \in Outcomes(Localtime(zone, WToCDS(uw), 0)) :
                  /\ last' = [op |-> "localtime", a |-> uw, r |-> r]
                  /\ dts' = IF "ok" \in DOMAIN r THEN dts \cup {r.ok} ELSE dts
                  /\ UNCHANGED <<zone, buf, reads>>
\* ---- mktime (C05, C06): the result is the expected entries in non-decreasing order of instant ----
InOrder(list) == \A i \in 1..(Len(list) - 1) : ~WLt(EntryInstant(list[i + 1]), EntryInstant(list[i]))
Orderings(S) == {list \in [1..Cardinality(S) -> S] : (\A a \in S : \E i \in 1..Cardinality(S) : list[i] = a) /\ InOrder(list)}
Search == /\ Tick /\ \E f \in LocalTimes :
            LET L == UnixOf(f.y, f.mo, f.d, f.h, f.mi, f.s) IN
            /\ ~FindRisky(zone, f, L) /\ ~FindUnspecified(zone)
            /\ \E list \in Orderings(Expected(zone, f, 0)) :
                 /\ last' = [op |-> "find", a |-> f, list |-> list, acc |-> AccessorsOf(list)]
                 /\ dts' = dts \cup {list[i][2] : i \in 1..Len(list)} \cup {list[i][3] : i \in {j \in 1..Len(list) : list[j][1] = "S"}}
                 /\ UNCHANGED <<zone, buf, reads>>
\* ---- buffer-based search (C17): writes the first min(n, k) results and nothing else ----
SearchN == /\ Tick /\ \E f \in LocalTimes, n \in 0..4 :
             LET L == UnixOf(f.y, f.mo, f.d, f.h, f.mi, f.s) IN
             /\ ~FindRisky(zone, f, L) /\ ~FindUnspecified(zone)
             /\ \E list \in Orderings(Expected(zone, f, 0)) :
                  LET k == Len(list) m == Min2(n, k) IN
                  /\ buf' = [i \in 1..4 |-> IF i <= m THEN list[i] ELSE buf[i]]
                  /\ last' = [op |-> "findn", a |-> f, n |-> n, count |-> k, exh |-> n >= k, data |-> SubSeq(list, 1, m), full |-> list]
                  /\ UNCHANGED <<zone, reads, dts>>
\* ---- projection (C14): keeps (instant, ns), re-derives fields and type ----
ProjectDt == /\ Tick /\ dts # {} /\ \E dt \in dts :
               \E r \in Outcomes(Localtime(zone, WToCDS(dt.u), dt.ns)) :
                 /\ last' = [op |-> "project", a |-> dt, r |-> r]
                 /\ dts' = IF "ok" \in DOMAIN r THEN dts \cup {r.ok} ELSE dts
                 /\ UNCHANGED <<zone, buf, reads>>
\* ---- rendering (C18) ----
RenderDt == /\ Tick /\ dts # {} /\ \E dt \in dts :
              /\ last' = [op |-> "render", a |-> dt, text |-> Render(dt.y, dt.mo, dt.d, dt.h, dt.mi, dt.s, dt.ns, dt.off)]
              /\ UNCHANGED <<zone, buf, reads, dts>>

\* ---- rules and descriptions (C09, C11): a rule, once accepted, governs a rule-only zone ----
ZoneArgOf(rule) == [tr |-> <<>>, ty |-> IF rule.k = "fixed" THEN <<rule.t>> ELSE <<rule.std, rule.dst>>, lp |-> <<>>, rule |-> rule]   \* wire shape
RuleZoneOf(rule) == MkZone(ZoneArgOf(rule))
MakeRule == /\ Tick /\ \E ra \in Rules :
              LET rule == [k |-> "alt", std |-> ra.std, dst |-> ra.dst, sd |-> ra.sd, st |-> ra.st, ed |-> ra.ed, et |-> ra.et]
                  v == RuleVerdict(rule) IN
              /\ zone' = IF v.ok # {} THEN RuleZoneOf(rule) ELSE zone
              /\ buf' = IF v.ok # {} THEN EmptyBuf ELSE buf
              /\ last' = [op |-> "rule", a |-> ra, accepted |-> v.ok # {}, errs |-> v.err, za |-> IF v.ok # {} THEN ZoneArgOf(rule) ELSE [k |-> "none"]]
              /\ UNCHANGED <<reads, dts>>
ParseDescription ==
  /\ Tick /\ \E str \in TzStrings, ext \in BOOLEAN :
              LET p == ParseTz(TrimWs(str), ext) IN
              /\ zone' = IF p.ok THEN RuleZoneOf(p.rule) ELSE zone
              /\ buf' = IF p.ok THEN EmptyBuf ELSE buf
              /\ last' = [op |-> "tzstring", a |-> str, ext |-> ext, accepted |-> p.ok, za |-> IF p.ok THEN ZoneArgOf(p.rule) ELSE [k |-> "none"]]
              /\ UNCHANGED <<reads, dts>>
\* ---- UTC date-times (C01, C02, C16) and comparison (C14) ----
GmtimeCall == /\ Tick /\ \E uw \in Instants :
                \E r \in Outcomes(FromLocal(WToCDS(uw), 0, UtcType)) :
                  /\ last' = [op |-> "gmtime", a |-> uw, r |-> r]
                  /\ dts' = IF "ok" \in DOMAIN r THEN dts \cup {r.ok} ELSE dts
                  /\ UNCHANGED <<zone, buf, reads>>
TimegmCall == /\ Tick /\ \E f \in LocalTimes :
                \E r \in Outcomes(NewDt(f.y, f.mo, f.d, f.h, f.mi, f.s, 0, UtcType)) :
                  /\ last' = [op |-> "timegm", a |-> f, r |-> r]
                  /\ dts' = IF "ok" \in DOMAIN r THEN dts \cup {r.ok} ELSE dts
                  /\ UNCHANGED <<zone, buf, reads>>
FromNanosCall ==
  /\ Tick /\ \E nn \in Nanos :
                LET sp == Split(nn) IN
                \E r \in Outcomes(IF WFitsI64(sp.q) THEN Localtime(zone, WToCDS(sp.q), sp.r) ELSE OutErr("OutOfRange")) :
                  /\ last' = [op |-> "fromnanos", a |-> nn, r |-> r]
                  /\ dts' = IF "ok" \in DOMAIN r THEN dts \cup {r.ok} ELSE dts
                  /\ UNCHANGED <<zone, buf, reads>>
CompareDts == /\ Tick /\ \E x \in dts, w \in dts :
                /\ last' = [op |-> "cmp", a |-> x, b |-> w, ord |-> InstCmp(x.u, x.ns, w.u, w.ns)]
                /\ UNCHANGED <<zone, buf, reads, dts>>

Next == MakeRule \/ ParseDescription \/ GmtimeCall \/ TimegmCall \/ FromNanosCall \/ CompareDts \/ MakeZone \/ DecodeFile \/ ResolveTz \/ LookupType \/ Localtime1 \/ Search \/ SearchN \/ ProjectDt \/ RenderDt
Spec == Init /\ [][Next]_vars

\* ============================== properties ================================
\* C14: every date-time the session has been handed denotes one instant and its fields match it
AllDtInv == \A dt \in dts : DtInv(dt)
\* C15 / frame conditions: only constructors change the zone, only find_n changes the buffer, only resolution issues reads
FrameOK == [][ /\ (zone' # zone => last'.op \in {"zone", "tzif", "resolve", "rule", "tzstring"})
               /\ (buf' # buf => last'.op \in {"findn", "zone", "tzif", "rule", "tzstring"})
               /\ (reads' # reads => last'.op = "resolve") ]_vars
\* C17: the buffer frame
BufFrame == [][ last'.op = "findn" =>
                  LET m == Len(last'.data) IN
                  /\ \A i \in 1..4 : buf'[i] = IF i <= m THEN last'.full[i] ELSE buf[i]
                  /\ last'.count = Len(last'.full) /\ (last'.exh <=> last'.n >= last'.count) ]_vars
\* C05: localtime followed by the search recovers the instant (checked on the observation of the last localtime call)
RoundTripOK == (last.op = "localtime" /\ "ok" \in DOMAIN last.r) =>
   LET dt == last.r.ok
       f == [y |-> dt.y, mo |-> dt.mo, d |-> dt.d, h |-> dt.h, mi |-> dt.mi, s |-> dt.s]
       L == UnixOf(f.y, f.mo, f.d, f.h, f.mi, f.s)
   IN (~FindRisky(zone, f, L) /\ ~FindUnspecified(zone) /\ Interleaves(zone.sum) = (zone.rule.k = "alt"))
        => \E p \in ValidInstants(zone, L) : CDSToW(p[1]) = dt.u
\* C06: the list of a search is in ascending order and its accessors are the functions of the list the statement describes
SearchOK == last.op = "find" => InOrder(last.list) /\ last.acc = AccessorsOf(last.list)
\* C18: reading a rendered text back recovers the value
RenderOK == last.op = "render" =>
   Read(last.text) = [y |-> last.a.y, mo |-> last.a.mo, d |-> last.a.d, h |-> last.a.h, mi |-> last.a.mi, s |-> last.a.s, ns |-> last.a.ns, off |-> last.a.off]
\* C20: requests are a prefix of the plan and stop at the first readable file
ReadsOK == last.op = "resolve" => \A i \in 1..(Len(reads) - 1) : ~IsReadable(Vfs, reads[i])
\* C13: a zone the session holds is always well formed
ZoneWellFormed == ZoneVerdict(zone) \subseteq {"ok-or"} \/ "ok-or" \in ZoneVerdict(zone)
\* C14: the same instant seen from two zones compares equal; ordering follows (instant, ns)
CmpOK == last.op = "cmp" => ((last.ord = 0) <=> (last.a.u = last.b.u /\ last.a.ns = last.b.ns))
\* C16: a date-time built from a nanosecond count denotes exactly that count
NanosOK == (last.op = "fromnanos" /\ "ok" \in DOMAIN last.r) => last.r.ok.tn = last.a
\* C09: descriptions that need RFC 8536 extensions are refused without them
ExtOK == (last.op = "tzstring" /\ ~last.ext /\ last.accepted) => ParseTz(TrimWs(last.a), TRUE).ok
Invariants == CmpOK /\ NanosOK /\ ExtOK /\ AllDtInv /\ RoundTripOK /\ SearchOK /\ RenderOK /\ ReadsOK /\ ZoneWellFormed
=============================================================================
