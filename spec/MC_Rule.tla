------------------------------ MODULE MC_Rule ------------------------------
(***************************************************************************)
(* C04 at the specification level.                                         *)
(*  (1) vPh = 9 states: the declarative reading of Mm.w.d ("the w-th, or    *)
(*      last, week day d of month m") equals the arithmetic form used for  *)
(*      bulk evaluation, for all 420 notations x 400 years.                *)
(*  (2) a family of rules (notation representatives x times x offsets,     *)
(*      filtered by the constructor's verdict): on interleaving rules the  *)
(*      period definition of "on daylight time" is consistent with the     *)
(*      alternation of start/end instants, and never changes at New Year   *)
(*      unless New Year is itself a start/end instant.                     *)
(*  (3) vectors: rule-only zones probed at S(vY)-1, S(vY), E(vY)-1, E(vY) and  *)
(*      around New Year, with the type the specification prescribes.       *)
(***************************************************************************)
EXTENDS Algo, TLC, Json
CONSTANTS DayIds,      \* notation ids used for start/end days (see NdOf)
          TimeIdx,     \* indices into Times
          OffIdx,      \* indices into OffPairs
          Years,       \* years-in-cycle probed
          EmitVec, Cycle
VARIABLES vPh, vR, vSum, vY, vM
vars == <<vPh, vR, vSum, vY, vM>>

\* 1..365 -> J n ; 366..731 -> zero-based n ; 732..1151 -> Mm.w.d
NdOf(id) == IF id <= 365 THEN <<"J", id>>
            ELSE IF id <= 731 THEN <<"Z", id - 366>>
            ELSE LET i == id - 732 IN <<"M", (i \div 35) + 1, ((i % 35) \div 7) + 1, i % 7>>
Times == <<-604799, -86401, -1, 0, 7200, 86400, 90000, 604799, 3600, -3600>>
OffPairs == << <<0, 3600>>, <<-18000, -14400>>, <<3600, 0>>, <<-89999, 93599>>, <<93599, -89999>>, <<36000, 39600>>, <<0, 0>> >>
TyS(off) == [off |-> off, dst |-> 0, des |-> <<83, 84, 68>>]
TyD(off) == [off |-> off, dst |-> 1, des |-> <<68, 83, 84>>]
NoRule == [k |-> "none"]
CycleNeg == -1            \* years -400..-1 (a .cfg file cannot hold a negative number)
\* initial states: one per (start day, end day) so that all workers share the rule enumeration
Init == \/ vPh = 0 /\ vR = NoRule /\ vSum = NoSummary /\ vY \in DayIds /\ vM \in DayIds
        \/ vPh = 9 /\ vR = NoRule /\ vSum = NoSummary /\ vY \in 0..399 /\ vM \in 1..12       \* part (1)
PickRule == /\ vPh = 0 /\ vPh' = 1 /\ vY' = 0 /\ vM' = 0
            /\ \E s \in TimeIdx, t \in TimeIdx, o \in OffIdx :
                 LET rr == [k |-> "alt", std |-> TyS(OffPairs[o][1]), dst |-> TyD(OffPairs[o][2]), sd |-> NdOf(vY), st |-> Times[s], ed |-> NdOf(vM), et |-> Times[t]]
                     ss == RuleSummary(rr)
                 IN RuleVerdictS(rr, ss).ok # {} /\ vR' = rr /\ vSum' = ss
ProbeYear == vPh = 1 /\ vPh' = 2 /\ vY' \in Years /\ UNCHANGED <<vR, vSum, vM>>
Next == PickRule \/ ProbeYear
Spec == Init /\ [][Next]_vars

\* ---- (1) ----
DeclEqArith == vPh = 9 => \A w \in 1..5, d \in 0..6 :
                 /\ MDayDecl(vM, w, d, vY) = MDayArith(vM, w, d, vY)
                 /\ MDayArith(vM, w, d, vY) \in 1..DaysInMonth(IsLeap(vY), vM)
                 /\ DowOfCycleDay(DBYTab[vY] + Cum(IsLeap(vY))[vM] + MDayArith(vM, w, d, vY) - 1) = d
\* ---- (2) ----
Yr == <<Cycle, vY>>
S0 == RS(vR, Yr)
E0 == RE(vR, Yr)
Snext == RS(vR, YNorm(Cycle, vY + 1))
Enext == RE(vR, YNorm(Cycle, vY + 1))
NewYear == CNorm(Cycle, DBYTab[vY], 0)
AllInstants == {RS(vR, YNorm(Cycle, vY + k)) : k \in -2..2} \cup {RE(vR, YNorm(Cycle, vY + k)) : k \in -2..2}
Dst(u) == InDst(vR, vSum, u)
PeriodLaws == (vPh = 2 /\ Interleaves(vSum) /\ ~Degenerate(vSum)) =>
  /\ (vSum.north => /\ (CLt(S0, E0) => Dst(S0) /\ Dst(CAddSec(E0, -1)))            \* start inclusive
                   /\ (CLt(E0, Snext) => ~Dst(E0) /\ ~Dst(CAddSec(Snext, -1))))    \* end exclusive
  /\ (~vSum.north => /\ (CLt(E0, S0) => ~Dst(E0) /\ ~Dst(CAddSec(S0, -1)))
                    /\ (CLt(S0, Enext) => Dst(S0) /\ Dst(CAddSec(Enext, -1))))
  \* the answer changes only at start/end instants, in particular never at a calendar-year boundary
  /\ (NewYear \notin AllInstants => Dst(NewYear) = Dst(CAddSec(NewYear, -1)))
  /\ \A u \in {CAddSec(S0, 43200), CAddSec(E0, 43200), CAddSec(NewYear, 12345)} :
        (CAddSec(u, 1) \notin AllInstants) => Dst(u) = Dst(CAddSec(u, 1))
\* ---- (3) ----
RuleZoneArgs == [tr |-> <<>>, ty |-> <<vR.std, vR.dst>>, lp |-> <<>>, rule |-> vR, via |-> "owned"]
Z == [tr |-> <<>>, ty |-> <<vR.std, vR.dst>>, lp |-> <<>>, rule |-> vR, sum |-> vSum]
OutVec(out) == {[ok |-> v] : v \in out.ok} \cup {[err |-> e] : e \in out.err}
Probes == {CAddSec(S0, -1), S0, CAddSec(E0, -1), E0, CAddSec(NewYear, -1), NewYear, CAddSec(S0, 86400), CAddSec(E0, -86400)}
Emit == (EmitVec /\ vPh = 2) => \A u \in Probes :
          PrintT(<<"VEC", ToJson([zk |-> RuleZoneArgs, op |-> "lookup", a |-> [u |-> CDSToW(u), via |-> "ref"], x |-> OutVec(Lookup(Z, u))])>>)
\* the summary's verdict equals the statement's literal year-by-year definition (checked on the rules with equal time indices)
LiteralConsistency == (vPh = 1 /\ vR.st = vR.et) => (vSum.consistent = Consistent(vR))
\* ---- (4) the algorithm layer: the 12-leaf evaluator and the search's window walk (Algo.tla) give the declarative answer
\* on every interleaving rule that is neither degenerate nor of the recorded K2 class (coincident south)
FieldsOf(L) == LET cv == Civil(L) IN [y |-> YInt(cv.c, cv.yic), mo |-> cv.mo, d |-> cv.d, h |-> cv.h, mi |-> cv.mi, s |-> cv.s]
LocalProbes == {CAddSec(u, o) : u \in {CAddSec(S0, -1), S0, CAddSec(E0, -1), E0, NewYear}, o \in {vR.std.off, vR.dst.off}}
AlgoRefines == (vPh = 2 /\ Interleaves(vSum) /\ ~Degenerate(vSum) /\ ~CoincidentSouth(vSum)) =>
  /\ \A u \in Probes : ATypeRefines(Z, u)
  /\ \A L \in LocalProbes : AFindRefines(Z, FieldsOf(L), 0)
\* the hypotheses of the unbounded proof spec/proofs/RuleTree.tla hold for the concrete instants of Rule.tla:
\* S(y), E(y) lie within W = one week of rule time + 26 h of offset of calendar year y, and years are at least 365 days long
WMargin == 604799 + 93599
NearOK == vPh = 2 =>
  LET ny == NewYear nyNext == CNorm(Cycle, DBYTab[vY] + YearLen(IsLeap(vY)), 0) IN
  /\ CLe(CAddSec(ny, -WMargin), S0) /\ CLe(S0, CAddSec(nyNext, WMargin))
  /\ CLe(CAddSec(ny, -WMargin), E0) /\ CLe(E0, CAddSec(nyNext, WMargin))
  /\ CLe(CAddSec(ny, 365 * 86400), nyNext)
\* witnesses, each REQUIRED TO BE VIOLATED on a rule of the class: TLC reproduces the recorded findings at the specification level
\* K2: without the exclusion the 12-leaf evaluator does not refine the period definition on a coincident-south rule
W_K2 == (vPh = 2 /\ Interleaves(vSum) /\ ~Degenerate(vSum)) =>
           (\A u \in Probes : ATypeRefines(Z, u)) /\ (\A L \in LocalProbes : AFindRefines(Z, FieldsOf(L), 0))
\* K1: on an accepted rule whose periods overlap the search's window walk returns an entry twice
W_K1 == (vPh = 2 /\ ~Interleaves(vSum)) => \A L \in LocalProbes : LET list == AFind(Z, FieldsOf(L), 0) IN Len(list) = Cardinality(SeqToSet(list))
Inv == DeclEqArith /\ PeriodLaws /\ LiteralConsistency /\ AlgoRefines /\ NearOK /\ Emit
=============================================================================
