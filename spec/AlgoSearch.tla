----------------------------- MODULE AlgoSearch -----------------------------
(***************************************************************************)
(* Algorithm layer (beyond the listed properties): the two hand-written    *)
(* loops every lookup goes through, written as PlusCal algorithms shaped   *)
(* like the Rust code, and checked by TLC to refine the declarative        *)
(* definitions of Zone.tla for ALL small inputs:                           *)
(*   - `impl_binary_search!` (utils/const_fns.rs) over a strictly          *)
(*     increasing table, and the index arithmetic of find_local_time_type  *)
(*     (Ok(x) => x + 1, Err(x) => x, then index - 1, else type 0)          *)
(*     ==  "the latest transition at or before L"                          *)
(*   - the forward leap-second scan unix_time_to_unix_leap_time            *)
(*     ==  u + correction of the physical reading (KAtUnix)                *)
(* Not bound to the code by hooks: it documents *why* the code is right    *)
(* and localises a conformance failure to a step when one is found.        *)
(***************************************************************************)
EXTENDS Integers, Sequences, FiniteSets, TLC
CONSTANTS MaxLen, MaxVal

StrictInc(n) == {s \in [1..n -> 0..MaxVal] : \A i \in 1..(n - 1) : s[i] < s[i + 1]}
Tables == UNION {StrictInc(n) : n \in 0..MaxLen}
\* leap tables on a small scale: spacing >= 2, steps +-1, first correction +-1
LeapTables == UNION {{lp \in [1..n -> (0..MaxVal) \X (-2..2)] :
                        /\ (n >= 1 => lp[1][2] \in {1, -1})
                        /\ \A i \in 1..(n - 1) : lp[i + 1][1] - lp[i][1] >= 3 /\ (lp[i + 1][2] - lp[i][2]) \in {1, -1}} : n \in 0..2}

(* --fair algorithm search
variables tab \in Tables, x \in -1..(MaxVal + 1),
          size = Len(tab), left = 0, right = Len(tab), mid = 0, res = <<"none", 0>>,
          lp \in LeapTables, u \in -1..(MaxVal + 1), est = u, i = 1;
begin
  \* impl_binary_search!($slice, $f, $x)
  Loop:
    while left < right /\ res[1] = "none" do
      mid := left + size \div 2;
      if tab[mid + 1] < x then left := mid + 1;
      elsif tab[mid + 1] > x then right := mid;
      else res := <<"Ok", mid>>;
      end if;
      size := right - left;
    end while;
  Finish:
    if res[1] = "none" then res := <<"Err", left>>; end if;
  \* unix_time_to_unix_leap_time: running estimate, stop at the first record not yet reached
  Scan:
    while i <= Len(lp) /\ ~(est < lp[i][1]) do
      est := u + lp[i][2];
      i := i + 1;
    end while;
  End: skip;
end algorithm *)
\* BEGIN TRANSLATION
VARIABLES pc, tab, x, size, left, right, mid, res, lp, u, est, i

vars == << pc, tab, x, size, left, right, mid, res, lp, u, est, i >>

Init == (* Global variables *)
        /\ tab \in Tables
        /\ x \in -1..(MaxVal + 1)
        /\ size = Len(tab)
        /\ left = 0
        /\ right = Len(tab)
        /\ mid = 0
        /\ res = <<"none", 0>>
        /\ lp \in LeapTables
        /\ u \in -1..(MaxVal + 1)
        /\ est = u
        /\ i = 1
        /\ pc = "Loop"

Loop == /\ pc = "Loop"
        /\ IF left < right /\ res[1] = "none"
              THEN /\ mid' = (left + size \div 2)
                   /\ IF tab[mid' + 1] < x
                         THEN /\ left' = mid' + 1
                              /\ UNCHANGED << right, res >>
                         ELSE /\ IF tab[mid' + 1] > x
                                    THEN /\ right' = mid'
                                         /\ res' = res
                                    ELSE /\ res' = <<"Ok", mid'>>
                                         /\ right' = right
                              /\ left' = left
                   /\ size' = right' - left'
                   /\ pc' = "Loop"
              ELSE /\ pc' = "Finish"
                   /\ UNCHANGED << size, left, right, mid, res >>
        /\ UNCHANGED << tab, x, lp, u, est, i >>

Finish == /\ pc = "Finish"
          /\ IF res[1] = "none"
                THEN /\ res' = <<"Err", left>>
                ELSE /\ TRUE
                     /\ res' = res
          /\ pc' = "Scan"
          /\ UNCHANGED << tab, x, size, left, right, mid, lp, u, est, i >>

Scan == /\ pc = "Scan"
        /\ IF i <= Len(lp) /\ ~(est < lp[i][1])
              THEN /\ est' = u + lp[i][2]
                   /\ i' = i + 1
                   /\ pc' = "Scan"
              ELSE /\ pc' = "End"
                   /\ UNCHANGED << est, i >>
        /\ UNCHANGED << tab, x, size, left, right, mid, res, lp, u >>

End == /\ pc = "End"
       /\ TRUE
       /\ pc' = "Done"
       /\ UNCHANGED << tab, x, size, left, right, mid, res, lp, u, est, i >>

(* Allow infinite stuttering to prevent deadlock on termination. *)
Terminating == pc = "Done" /\ UNCHANGED vars

Next == Loop \/ Finish \/ Scan \/ End
           \/ Terminating

Spec == /\ Init /\ [][Next]_vars
        /\ WF_vars(Next)

Termination == <>(pc = "Done")

\* END TRANSLATION

\* ---- what the loops must compute ----
\* index (0-based count) of the entries <= x : "latest transition at or before x" is entry number Latest(x), 0 = none
Latest(t, y) == Cardinality({j \in 1..Len(t) : t[j] <= y})
IndexOfResult(r) == IF r[1] = "Ok" THEN r[2] + 1 ELSE r[2]
PrevC(l, k) == IF k = 1 THEN 0 ELSE l[k - 1][2]
KAtUnixS(l, v) == Cardinality({k \in 1..Len(l) : v + PrevC(l, k) >= l[k][1]})
CorrS(l, k) == IF k = 0 THEN 0 ELSE l[k][2]
Refines == pc = "Done" =>
  /\ (res[1] = "Ok" => tab[res[2] + 1] = x)
  /\ (res[1] = "Err" => (\A j \in 1..Len(tab) : tab[j] # x) /\ res[2] = Cardinality({j \in 1..Len(tab) : tab[j] < x}))
  /\ IndexOfResult(res) = Latest(tab, x)                          \* Ok(x) => x + 1, Err(x) => x  is the declarative "latest <= x"
  /\ est = u + CorrS(lp, KAtUnixS(lp, u))                          \* the scan computes the physical reading
Terminates == <>(pc = "Done")
=============================================================================
