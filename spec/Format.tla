------------------------------- MODULE Format -------------------------------
(***************************************************************************)
(* C18: the textual form of a date-time, as a sequence of bytes, and an    *)
(* independent reader (scanning from the right for the offset part) that   *)
(* recovers fields, nanoseconds and offset.                                *)
(***************************************************************************)
EXTENDS DateTime

Digit(dg) == 48 + dg
\* decimal digits of a natural number, most significant first, at least `w` digits (zero padded)
RECURSIVE DigitsOf(_)
DigitsOf(nat) == IF nat < 10 THEN <<Digit(nat)>> ELSE DigitsOf(nat \div 10) \o <<Digit(nat % 10)>>
RECURSIVE ZeroPad(_, _)
ZeroPad(s, w) == IF Len(s) >= w THEN s ELSE ZeroPad(<<48>> \o s, w)
Dec(nat, w) == ZeroPad(DigitsOf(nat), w)
\* i32 year: '-' and the magnitude, not padded ( -2147483648 has no positive counterpart in 32 bits )
YearText(yr) == IF yr >= 0 THEN DigitsOf(yr)
                ELSE IF yr = -2147483647 - 1 THEN <<45, 50, 49, 52, 55, 52, 56, 51, 54, 52, 56>>
                ELSE <<45>> \o DigitsOf(-yr)
AbsI32(x) == IF x >= 0 THEN x ELSE -x               \* never applied to i32::MIN (not a valid offset)
OffsetText(off) ==
  IF off = 0 THEN <<90>>                                                          \* "Z"
  ELSE LET a == AbsI32(off) hh == a \div 3600 mm == (a \div 60) % 60 ss == a % 60 IN
       <<IF off < 0 THEN 45 ELSE 43>> \o Dec(hh, 2) \o <<58>> \o Dec(mm, 2) \o (IF ss # 0 THEN <<58>> \o Dec(ss, 2) ELSE <<>>)
Render(yr, mo, dd, hh, mi, ss, ns, off) ==
  YearText(yr) \o <<45>> \o Dec(mo, 2) \o <<45>> \o Dec(dd, 2) \o <<84>> \o Dec(hh, 2) \o <<58>> \o Dec(mi, 2) \o <<58>> \o Dec(ss, 2)
  \o <<46>> \o Dec(ns, 9) \o OffsetText(off)

\* ---- an independent reader ----
IsDigit(ch) == ch \in 48..57
RECURSIVE NumOf(_, _)
NumOf(s, acc) == IF s = <<>> THEN acc ELSE NumOf(Tail(s), acc * 10 + (Head(s) - 48))     \* callers keep it within 32 bits
Positions(s, ch) == {i \in 1..Len(s) : s[i] = ch}
\* splits text at the 'T' and at the '.' (both unique in a well-formed text), then reads the offset from the right
Read(text) ==
  LET tpos == CHOOSE i \in Positions(text, 84) : TRUE
      dpos == CHOOSE i \in Positions(text, 46) : TRUE
      date == SubSeq(text, 1, tpos - 1)
      time == SubSeq(text, tpos + 1, dpos - 1)
      rest == SubSeq(text, dpos + 1, Len(text))
      nsTxt == SubSeq(rest, 1, 9)
      offTxt == SubSeq(rest, 10, Len(rest))
      \* date: [-]Y..Y-MM-DD : the last two '-' separate month and day
      dl == Len(date)
      yTxt == SubSeq(date, 1, dl - 6)
      neg == yTxt[1] = 45
      yDigits == IF neg THEN Tail(yTxt) ELSE yTxt
      \* the year magnitude may be 2147483648: read all but the last digit, then combine with the sign
      yHi == NumOf(SubSeq(yDigits, 1, Len(yDigits) - 1), 0)
      yLo == yDigits[Len(yDigits)] - 48
      yr == IF neg THEN (-yHi) * 10 - yLo ELSE yHi * 10 + yLo
      offv == IF offTxt = <<90>> THEN 0
              ELSE LET sg == IF offTxt[1] = 45 THEN -1 ELSE 1
                       body == Tail(offTxt)
                       colons == Positions(body, 58)
                       c1 == CHOOSE i \in colons : \A j \in colons : i <= j
                       hh == NumOf(SubSeq(body, 1, c1 - 1), 0)
                       mm == NumOf(SubSeq(body, c1 + 1, c1 + 2), 0)
                       ss == IF Cardinality(colons) = 2 THEN NumOf(SubSeq(body, c1 + 4, c1 + 5), 0) ELSE 0
                   IN sg * (hh * 3600 + mm * 60 + ss)
  IN [y |-> yr, mo |-> NumOf(SubSeq(date, dl - 4, dl - 3), 0), d |-> NumOf(SubSeq(date, dl - 1, dl), 0),
      h |-> NumOf(SubSeq(time, 1, 2), 0), mi |-> NumOf(SubSeq(time, 4, 5), 0), s |-> NumOf(SubSeq(time, 7, 8), 0),
      ns |-> NumOf(nsTxt, 0), off |-> offv]
\* shape: what the statement says about the text, independently of Render
WellShaped(text, off) ==
  /\ Cardinality(Positions(text, 84)) = 1 /\ Cardinality(Positions(text, 46)) = 1
  /\ LET dpos == CHOOSE i \in Positions(text, 46) : TRUE tpos == CHOOSE i \in Positions(text, 84) : TRUE IN
       /\ dpos = tpos + 9                                             \* HH:MM:SS is fixed width
       /\ Len(text) >= dpos + 10
       /\ \A i \in (dpos + 1)..(dpos + 9) : IsDigit(text[i])           \* nine nanosecond digits
       /\ (text[Len(text)] = 90) = (off = 0)                           \* 'Z' exactly when the offset is zero
       /\ (off # 0 => text[dpos + 10] = (IF off < 0 THEN 45 ELSE 43))
       \* the offset part: sign, at least two hour digits, ':MM', and ':SS' only if present - all two-digit, all digits
       /\ (off # 0 => LET body == SubSeq(text, dpos + 11, Len(text))
                          colons == Positions(body, 58)
                      IN /\ Cardinality(colons) \in {1, 2}
                         /\ \A i \in 1..Len(body) : i \in colons \/ IsDigit(body[i])
                         /\ LET c1 == CHOOSE i \in colons : \A j \in colons : i <= j IN
                              /\ c1 >= 3
                              /\ (Cardinality(colons) = 1 => Len(body) = c1 + 2)
                              /\ (Cardinality(colons) = 2 => Len(body) = c1 + 5 /\ body[c1 + 3] = 58))
       /\ \A i \in 1..(tpos - 1) : IsDigit(text[i]) \/ text[i] = 45
       /\ tpos >= 8 /\ text[tpos - 3] = 45 /\ text[tpos - 6] = 45
=============================================================================
