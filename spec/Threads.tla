------------------------------ MODULE Threads ------------------------------
(***************************************************************************)
(* C15: any number of threads call the library concurrently on shared      *)
(* zones.  Every call is Invoke(th, op) ... Respond(th); in the faithful   *)
(* model the response is a function of the call's arguments and of the     *)
(* immutable shared zone only - there is no variable a call could read or  *)
(* write besides its own frame.  With SharedCache = TRUE the library is    *)
(* given what the property forbids, a process-wide one-slot lookup cache   *)
(* filled in two steps (key, then value) without synchronisation: TLC then *)
(* finds the interleaving in which a reader sees its own key with another  *)
(* thread's value - so the model is able to express the hazard, and the    *)
(* faithful configuration is the one without the cell.                     *)
(***************************************************************************)
EXTENDS Integers, Sequences, FiniteSets
CONSTANTS NThreads, Calls, SharedCache
VARIABLES vPc, vArg, vRes, vDone, vCacheKey, vCacheVal
vars == <<vPc, vArg, vRes, vDone, vCacheKey, vCacheVal>>
Threads == 1..NThreads
Args == 1..3
\* the sequential meaning of a call: a pure function of its argument and of the (immutable, shared) zone
F(a) == a * 10 + 7
Init == /\ vPc = [t \in Threads |-> "idle"] /\ vArg = [t \in Threads |-> 0] /\ vRes = [t \in Threads |-> <<>>]
        /\ vDone = [t \in Threads |-> 0] /\ vCacheKey = 0 /\ vCacheVal = 0
Invoke(t) == /\ vPc[t] = "idle" /\ vDone[t] < Calls
             /\ \E a \in Args : vArg' = [vArg EXCEPT ![t] = a]
             /\ vPc' = [vPc EXCEPT ![t] = IF SharedCache THEN "check" ELSE "compute"]
             /\ UNCHANGED <<vRes, vDone, vCacheKey, vCacheVal>>
\* faithful library: compute and respond from the thread's own frame
Respond(t) == /\ vPc[t] = "compute"
              /\ vRes' = [vRes EXCEPT ![t] = Append(@, <<vArg[t], F(vArg[t])>>)]
              /\ vDone' = [vDone EXCEPT ![t] = @ + 1] /\ vPc' = [vPc EXCEPT ![t] = "idle"]
              /\ UNCHANGED <<vArg, vCacheKey, vCacheVal>>
\* the forbidden variant: hit test on the key, value read in a later step; fill = key then value
CacheCheck(t) == /\ vPc[t] = "check"
                 /\ vPc' = [vPc EXCEPT ![t] = IF vCacheKey = vArg[t] THEN "hit" ELSE "fillkey"]
                 /\ UNCHANGED <<vArg, vRes, vDone, vCacheKey, vCacheVal>>
CacheHit(t) == /\ vPc[t] = "hit"
               /\ vRes' = [vRes EXCEPT ![t] = Append(@, <<vArg[t], vCacheVal>>)]
               /\ vDone' = [vDone EXCEPT ![t] = @ + 1] /\ vPc' = [vPc EXCEPT ![t] = "idle"]
               /\ UNCHANGED <<vArg, vCacheKey, vCacheVal>>
FillKey(t) == /\ vPc[t] = "fillkey" /\ vCacheKey' = vArg[t] /\ vPc' = [vPc EXCEPT ![t] = "fillval"]
              /\ UNCHANGED <<vArg, vRes, vDone, vCacheVal>>
FillVal(t) == /\ vPc[t] = "fillval" /\ vCacheVal' = F(vArg[t])
              /\ vRes' = [vRes EXCEPT ![t] = Append(@, <<vArg[t], F(vArg[t])>>)]
              /\ vDone' = [vDone EXCEPT ![t] = @ + 1] /\ vPc' = [vPc EXCEPT ![t] = "idle"]
              /\ UNCHANGED <<vArg, vCacheKey>>
Next == \E t \in Threads : Invoke(t) \/ Respond(t) \/ CacheCheck(t) \/ CacheHit(t) \/ FillKey(t) \/ FillVal(t)
Spec == Init /\ [][Next]_vars
\* every response equals what the call returns when run alone
Sequential == \A t \in Threads : \A i \in 1..Len(vRes[t]) : vRes[t][i][2] = F(vRes[t][i][1])
\* frame condition of the faithful library: no action touches process-wide state
NoSharedCell == SharedCache \/ (vCacheKey = 0 /\ vCacheVal = 0)
Inv == Sequential /\ NoSharedCell
=============================================================================
