----------------------------- MODULE MC_TzFile -----------------------------
(***************************************************************************)
(* C08 at the specification level: small zones are written by the TLA+     *)
(* encoder in versions 1, 2 and 3 (the 32-bit block of a v2+ file holds a  *)
(* *different* zone, shared / overlapping designation strings, all         *)
(* indicator vectors) and decoded again; Decode(Encode(z)) = z.  Then      *)
(* every truncation and single-field corruption is decoded; each file is   *)
(* emitted as a vector with the verdict of the specification's decoder.    *)
(***************************************************************************)
EXTENDS TzFile, TLC, Json
CONSTANTS EmitVec, CMod, CRem      \* corruptions are explored for the encoded files whose length is CRem modulo CMod
VARIABLES vPh, vVer, vZ, vLay, vBytes, vKind
vars == <<vPh, vVer, vZ, vLay, vBytes, vKind>>

Tab == <<76, 77, 84, 0, 67, 69, 83, 84, 0>>                       \* "LMT\0CEST\0" ; index 5 = "EST" shares the tail of "CEST"
TypeMenus == { <<[off |-> 0, dst |-> 0, ix |-> 0]>>,
               <<[off |-> -18000, dst |-> 0, ix |-> 5], [off |-> -14400, dst |-> 1, ix |-> 4]>>,
               <<[off |-> 3600, dst |-> 0, ix |-> 0], [off |-> 7200, dst |-> 1, ix |-> 4]>>,
               <<[off |-> 5, dst |-> 0, ix |-> 3]>> }                 \* index 3 = the NUL itself: no designation
TrMenus(nty) == { <<>>, <<<<-5, 0>>>>, <<<<0, nty - 1>>, <<7, 0>>>>, <<<<-2147483647, 0>>, <<2147483647, nty - 1>>>> }
LeapMenus == { <<>>, <<<<5, 1>>>> }
Footers(ver) == { <<>>, <<69, 83, 84, 53>>, <<69, 83, 84, 53, 69, 68, 84, 44, 77, 51, 46, 50, 46, 48, 44, 77, 49, 49, 46, 49, 46, 48>>,
                  <<60, 45, 48, 51, 62, 51, 60, 45, 48, 50, 62, 44, 77, 51, 46, 53, 46, 48, 47, 45, 50, 44, 77, 49, 48, 46, 53, 46, 48, 47, 45, 49>> }   \* <-03>3<-02>,M3.5.0/-2,M10.5.0/-1
\* (the last two have the wrong number of indicators for two types: counts and block sizes stay consistent, the header is invalid)
IndMenus(nty) == { <<<<>>, <<>>>>, <<[i \in 1..nty |-> 1], <<>>>>, <<[i \in 1..nty |-> 1], [i \in 1..nty |-> 1]>>, <<[i \in 1..nty |-> 0], [i \in 1..nty |-> 0]>>,
                   <<<<1>>, <<>>>>, <<<<>>, <<0>>>>,
                   <<<<>>, [i \in 1..nty |-> 1]>> }          \* UT indicators without standard indicators: the pair (0, 1) is invalid
OtherZone == [tr |-> <<<<1, 0>>>>, ty |-> <<[off |-> 60, dst |-> 0]>>, lp |-> <<>>]          \* what the ignored 32-bit block of a v2+ file says
OtherLay == [tab |-> <<85, 84, 67, 0>>, idx |-> <<0>>, isstd |-> <<>>, isut |-> <<>>, footer |-> <<>>]

Init == vPh = 0 /\ vVer \in {0, 50, 51} /\ vZ = <<>> /\ vLay = <<>> /\ vBytes = <<>> /\ vKind = "none"
Build == /\ vPh = 0 /\ vPh' = 1 /\ vVer' = vVer /\ vKind' = "encoded"
         /\ \E tm \in TypeMenus : \E trs \in TrMenus(Len(tm)) : \E lps \in LeapMenus : \E ft \in Footers(vVer) : \E ind \in IndMenus(Len(tm)) :
              LET zn == [tr |-> trs, ty |-> [i \in 1..Len(tm) |-> [off |-> tm[i].off, dst |-> tm[i].dst]], lp |-> lps]
                  ly == [tab |-> Tab, idx |-> [i \in 1..Len(tm) |-> tm[i].ix], isstd |-> ind[1], isut |-> ind[2], footer |-> IF vVer = 0 THEN <<>> ELSE ft]
              IN vZ' = zn /\ vLay' = ly /\ vBytes' = Encode(vVer, OtherZone, OtherLay, zn, ly)
Build1 == /\ vPh = 0 /\ vPh' = 1 /\ vVer' = vVer /\ vKind' = "encoded"          \* the smallest designation table: a single NUL (no designation at all)
          /\ \E ft \in {<<>>} :
              LET zn == [tr |-> <<<<3, 0>>>>, ty |-> <<[off |-> -7, dst |-> 1]>>, lp |-> <<>>]
                  ly == [tab |-> <<0>>, idx |-> <<0>>, isstd |-> <<>>, isut |-> <<>>, footer |-> ft]
              IN vZ' = zn /\ vLay' = ly /\ vBytes' = Encode(vVer, OtherZone, OtherLay, zn, ly)
\* corruptions of an encoded file: every truncation; one byte of the header or body changed
Corrupt == /\ vPh = 1 /\ Len(vBytes) % CMod = CRem /\ vPh' = 2 /\ UNCHANGED <<vVer, vZ, vLay>>
           /\ \/ \E n \in 0..(Len(vBytes) - 1) : vBytes' = SubSeq(vBytes, 1, n) /\ vKind' = "truncated"
              \/ \E p \in 1..Len(vBytes) : \E nb \in {0, 1, 2, 50, 51, 255, (vBytes[p] + 1) % 256} :
                   nb # vBytes[p] /\ vBytes' = [vBytes EXCEPT ![p] = nb] /\ vKind' = "byte-changed"
              \/ vBytes' = vBytes \o <<0>> /\ vKind' = "byte-appended"
Next == Build \/ Build1 \/ Corrupt
Spec == Init /\ [][Next]_vars

\* the zone in wire shape, as the decoder must return it
DesOf(tab, ix) == DesigAt(tab, ix).des
Wire == [tr |-> [i \in 1..Len(vZ.tr) |-> <<WInt(vZ.tr[i][1]), vZ.tr[i][2]>>],
         ty |-> [i \in 1..Len(vZ.ty) |-> [off |-> vZ.ty[i].off, dst |-> vZ.ty[i].dst, des |-> DesOf(vLay.tab, vLay.idx[i])]],
         lp |-> [i \in 1..Len(vZ.lp) |-> <<WInt(vZ.lp[i][1]), vZ.lp[i][2]>>],
         rule |-> IF vLay.footer = <<>> THEN [k |-> "none"] ELSE ParseTz(vLay.footer, vVer = 51).rule]
FooterOK == vLay.footer = <<>> \/ ParseTz(vLay.footer, vVer = 51).ok
Faithful == vPh = 1 =>
  LET dd == Decode(vBytes) IN
  IF /\ FooterOK /\ ZoneVerdict(MkZone(Wire)) = {} /\ Len(vLay.isstd) \in {0, Len(vZ.ty)} /\ Len(vLay.isut) \in {0, Len(vZ.ty)}
     /\ \A i \in 1..Len(vZ.ty) : <<IF i <= Len(vLay.isstd) THEN vLay.isstd[i] ELSE 0, IF i <= Len(vLay.isut) THEN vLay.isut[i] ELSE 0>> \in {<<0, 0>>, <<1, 0>>, <<1, 1>>}
  THEN dd.ok /\ dd.zone = Wire
  ELSE ~dd.ok                                                           \* extensions only for version 3; rule must agree with the table
\* a truncated version-1 file or one with trailing bytes is never accepted
V1Exact == (vPh = 2 /\ vVer = 0 /\ vKind \in {"truncated", "byte-appended"}) => ~Decode(vBytes).ok
Emit == (EmitVec /\ vPh \in {1, 2}) =>
  LET dd == Decode(vBytes) IN
  IF "unspecified" \in DOMAIN dd \/ "open" \in DOMAIN dd THEN PrintT(<<"VEC", ToJson([op |-> "tzif", a |-> [bytes |-> vBytes]])>>)
  ELSE IF dd.ok THEN PrintT(<<"VEC", ToJson([op |-> "tzif", a |-> [bytes |-> vBytes], x |-> {[ok |-> dd.zone]}])>>)
  ELSE PrintT(<<"VEC", ToJson([op |-> "tzif", a |-> [bytes |-> vBytes], xerr |-> 1])>>)
Inv == Faithful /\ V1Exact /\ Emit
=============================================================================
