---------------------------- MODULE Apa_Calendar ----------------------------
(***************************************************************************)
(* Unbounded integer lemmas behind the "one 400-year cycle is enough"      *)
(* argument of Cal.tla, discharged by Apalache for ALL integer years        *)
(* (apalache-mc check --length=0 --inv=Lemmas).  Supplementary: TLC stays  *)
(* the deciding engine; a failure or timeout here is reported, not judged. *)
(***************************************************************************)
EXTENDS Integers
VARIABLE
  \* @type: Int;
  y
IsLeap(yr) == (yr % 400 = 0) \/ (yr % 4 = 0 /\ yr % 100 # 0)
YearLen(yr) == IF IsLeap(yr) THEN 366 ELSE 365
\* days from 0000-01-01 to Jan 1 of year yr, for any integer yr (floor divisions)
DBY(yr) == 365 * yr + ((yr + 3) \div 4) - ((yr + 99) \div 100) + ((yr + 399) \div 400)
\* truncating division as in Rust, for a positive divisor
Trunc(a, b) == IF a >= 0 THEN a \div b ELSE -((-a) \div b)
\* tz-rs days_since_unix_epoch(year, month = 1, month_day = 1), transcribed branch by branch
RustJan1(yr) ==
  IF yr >= 1970
  THEN (yr - 1970) * 365 + Trunc(yr - 1968, 4) - Trunc(yr - 1900, 100) + Trunc(yr - 1600, 400) - (IF IsLeap(yr) THEN 1 ELSE 0)
  ELSE (yr - 1970) * 365 + Trunc(yr - 1972, 4) - Trunc(yr - 2000, 100) + Trunc(yr - 2000, 400)
\* ... and for March 1st (month >= 3): the other halves of the two leap adjustments
RustMar1(yr) ==
  IF yr >= 1970
  THEN (yr - 1970) * 365 + Trunc(yr - 1968, 4) - Trunc(yr - 1900, 100) + Trunc(yr - 1600, 400) + 59
  ELSE (yr - 1970) * 365 + Trunc(yr - 1972, 4) - Trunc(yr - 2000, 100) + Trunc(yr - 2000, 400) + (IF IsLeap(yr) THEN 1 ELSE 0) + 59
\* the fix-up of a truncated quotient with a negative remainder used twice in UtcDateTime::from_timespec (seconds -> days, days -> cycles)
FloorFix(a, b) == LET q == Trunc(a, b) IN IF a - b * q < 0 THEN q - 1 ELSE q
Init == y \in Int
Next == UNCHANGED y
Lemmas ==
  /\ DBY(y + 400) = DBY(y) + 146097                       \* the calendar repeats every 146097 days
  /\ IsLeap(y + 400) = IsLeap(y)
  /\ DBY(y + 1) - DBY(y) = YearLen(y)                     \* the closed form counts year lengths
  /\ RustJan1(y) = DBY(y) - DBY(1970)                     \* both branches of the Rust formula, January
  /\ RustMar1(y) = DBY(y) - DBY(1970) + 59 + (IF IsLeap(y) THEN 1 ELSE 0)      \* ... and from March on
  /\ 146097 % 7 = 0
  /\ FloorFix(y, 86400) = y \div 86400 /\ FloorFix(y, 146097) = y \div 146097      \* for every integer count of seconds / days
=============================================================================
