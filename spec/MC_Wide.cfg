SPECIFICATION Spec
INVARIANT OK
CHECK_DEADLOCK FALSE
