----------------------------- MODULE MC_Session -----------------------------
(***************************************************************************)
(* Spec -> impl at the level of the SYSTEM model: every behaviour (client  *)
(* session) of the bounded TzRs machine, printed as the sequence of its    *)
(* calls with the observation the specification prescribes for each.       *)
(* `hist` is a history variable: it multiplies states into paths on        *)
(* purpose (one printed line per complete session of MaxSteps calls).      *)
(* lib/checks.py (sessions_from_model) turns each line into harness events *)
(* (one client session per line, opened by a group mark), executes them on *)
(* the real crate, compares every observation with the one printed here    *)
(* and has the recording validated by TzRsTrace.tla as well.               *)
(***************************************************************************)
EXTENDS MC_TzRs, Json
CONSTANTS EmitMod, EmitRem        \* emit the sessions whose number (order of generation) is EmitRem modulo EmitMod
VARIABLE hist
HInit == Init /\ hist = <<>>
HNext == Next /\ hist' = Append(hist, last')
HSpec == HInit /\ [][HNext]_<<vars, hist>>
\* a date-time as the harness prints it (DT of Appendix A) is the record the specification builds: nothing to convert.
\* sets inside observations (error sets) become sequences for JSON
SeqOfSet(S) == CHOOSE s \in [1..Cardinality(S) -> S] : \A a \in S : \E i \in 1..Cardinality(S) : s[i] = a
Obs(l) == IF l.op \in {"zone", "rule"} THEN [l EXCEPT !.errs = SeqOfSet(l.errs)] ELSE l
SessionHash == Len(ToJson(hist)) + 31 * Len(ToJson(last))
Emit == (steps = MaxSteps /\ SessionHash % EmitMod = EmitRem) => PrintT(<<"VEC", ToJson([session |-> [i \in 1..Len(hist) |-> Obs(hist[i])], dirs |-> Dirs, vfs |-> Vfs])>>)
Inv == Emit
=============================================================================
