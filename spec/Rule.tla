-------------------------------- MODULE Rule --------------------------------
(***************************************************************************)
(* POSIX daylight-saving rules (C04, C11): day notations, yearly start and *)
(* end instants, orientation, the "never flips" acceptance criterion and   *)
(* the local time type in force at an instant.                             *)
(*   day notation: <<"J", n>> (1..365, Feb 29 never counted),              *)
(*                 <<"Z", n>> (0..365, zero-based, Feb 29 counted),        *)
(*                 <<"M", m, w, d>> (w-th, or last if w = 5, week day d of *)
(*                 month m; d = 0 is Sunday)                               *)
(*   rule: [k |-> "alt", std, dst (local time types), sd, st, ed, et]      *)
(* Years are pairs (cycle, year-in-cycle); day/weekday patterns repeat     *)
(* with the 400-year cycle, so whole-rule facts are decided on yic 0..399. *)
(***************************************************************************)
EXTENDS DateTime

DowOfCycleDay(n) == (n + 6) % 7
\* week day of the first day of month m in year-in-cycle y (a constant table, evaluated once)
MonthStartDow == [yTab \in 0..399 |-> [mTab \in 1..12 |-> DowOfCycleDay(DBYTab[yTab] + Cum(IsLeap(yTab))[mTab])]]
\* day of the month, read off the notation's definition
MDayDecl(m, w, d, yic) ==
  LET first == DBYTab[yic] + Cum(IsLeap(yic))[m]
      hits == {k \in 1..DaysInMonth(IsLeap(yic), m) : DowOfCycleDay(first + k - 1) = d}
  IN IF w = 5 THEN CHOOSE k \in hits : \A j \in hits : j <= k
     ELSE CHOOSE k \in hits : Cardinality({j \in hits : j < k}) = w - 1
\* the same by arithmetic (model-checked equal to MDayDecl on all 420 notations x 400 years by MC_Rule)
MDayArith(m, w, d, yic) ==
  LET d1 == 1 + ((d - MonthStartDow[yic][m]) % 7)
      dd == d1 + 7 * (w - 1)
  IN IF dd > DaysInMonth(IsLeap(yic), m) THEN dd - 7 ELSE dd
\* zero-based day of the year; 365 in a common year is January 1st of the next year
RuleDoy(nd, yic) ==
  IF nd[1] = "J" THEN nd[2] - 1 + (IF IsLeap(yic) /\ nd[2] >= 60 THEN 1 ELSE 0)
  ELSE IF nd[1] = "Z" THEN nd[2]
  ELSE Cum(IsLeap(yic))[nd[2]] + MDayArith(nd[2], nd[3], nd[4], yic) - 1
ValidRuleDay(nd) ==
  IF nd[1] = "J" THEN nd[2] \in 1..365
  ELSE IF nd[1] = "Z" THEN nd[2] \in 0..365
  ELSE nd[2] \in 1..12 /\ nd[3] \in 1..5 /\ nd[4] \in 0..6

SOff(r) == r.st - r.std.off          \* the start time is read on the standard-time clock
EOff(r) == r.et - r.dst.off          \* the end time on the daylight-time clock
YNorm(c, yic) == <<c + (yic \div 400), yic % 400>>
RS(r, y) == CNorm(y[1], DBYTab[y[2]] + RuleDoy(r.sd, y[2]), SOff(r))     \* DST start instant of year y = <<c, yic>>
RE(r, y) == CNorm(y[1], DBYTab[y[2]] + RuleDoy(r.ed, y[2]), EOff(r))

\* whole-cycle order relations, in seconds
DD(r) == SOff(r) - EOff(r)
RelA(r, y) == (RuleDoy(r.sd, y) - RuleDoy(r.ed, y)) * 86400 + DD(r)                                              \* S(y) - E(y)
RelB(r, y) == (DBYTab[y] + RuleDoy(r.ed, y) - DBYTab[y + 1] - RuleDoy(r.sd, (y + 1) % 400)) * 86400 - DD(r)      \* E(y) - S(y+1)
RelC(r, y) == (DBYTab[y] + RuleDoy(r.sd, y) - DBYTab[y + 1] - RuleDoy(r.ed, (y + 1) % 400)) * 86400 + DD(r)      \* S(y) - E(y+1)
CycleYears == 0..399
Mixed(S) == (\E x \in S : x < 0) /\ (\E x \in S : x > 0)
\* everything the specification needs to know about a rule over the whole cycle, computed once per rule:
\* the sets of values taken by the three order relations (a handful of distinct values each)
RuleSummary(r) ==
  LET ds == [y \in CycleYears |-> RuleDoy(r.sd, y)]
      de == [y \in CycleYears |-> RuleDoy(r.ed, y)]
      dd == DD(r)
      A == {(ds[y] - de[y]) * 86400 + dd : y \in CycleYears}                                                    \* S(y) - E(y)
      BB == {(DBYTab[y] + de[y] - DBYTab[y + 1] - ds[(y + 1) % 400]) * 86400 - dd : y \in CycleYears}          \* E(y) - S(y+1)
      CC == {(DBYTab[y] + ds[y] - DBYTab[y + 1] - de[(y + 1) % 400]) * 86400 + dd : y \in CycleYears}          \* S(y) - E(y+1)
  IN [north |-> (\A a \in A : a <= 0) /\ (\A b \in BB : b <= 0),      \* S(y) <= E(y) <= S(y+1) every year
      south |-> (\A a \in A : a >= 0) /\ (\A c \in CC : c <= 0),      \* E(y) <= S(y) <= E(y+1) every year
      coinc |-> 0 \in A,
      startFirst |-> \A a \in A : a <= 0,                              \* orientation of any consistent rule
      consistent |-> ~Mixed(A) /\ ~Mixed(BB) /\ ~Mixed(CC)]             \* C11: no order relation ever changes sign
NoSummary == [north |-> FALSE, south |-> FALSE, coinc |-> FALSE, startFirst |-> FALSE, consistent |-> FALSE]
Interleaves(sum) == sum.north \/ sum.south
Degenerate(sum) == sum.north /\ sum.south
CoincidentSouth(sum) == sum.south /\ ~sum.north /\ sum.coinc              \* known finding K2

\* ---- C11: the constructor ----
\* the statement, literally, year by year (the summary's `consistent` is model-checked equal to it by MC_Rule)
Flips(r, Rel(_, _)) == (\E y \in CycleYears : Rel(r, y) < 0) /\ (\E y \in CycleYears : Rel(r, y) > 0)
Consistent(r) == ~Flips(r, RelA) /\ ~Flips(r, RelB) /\ ~Flips(r, RelC)
OffsetOK(o) == -25 * 3600 < o /\ o < 26 * 3600
TimeOK(t) == -604800 < t /\ t < 604800
RuleErrs(r) ==
     (IF ~OffsetOK(r.std.off) THEN {"TransitionRule.InvalidStdUtcOffset"} ELSE {})
  \cup (IF ~OffsetOK(r.dst.off) THEN {"TransitionRule.InvalidDstUtcOffset"} ELSE {})
  \cup (IF ~(TimeOK(r.st) /\ TimeOK(r.et)) THEN {"TransitionRule.InvalidDstStartEndTime"} ELSE {})
\* consistency is only defined (and only decided) once the windows hold
RuleVerdictS(r, sum) == LET e == RuleErrs(r) IN
  IF e # {} THEN Out({}, e) ELSE IF sum.consistent THEN OutOk(<<>>) ELSE OutErr("TransitionRule.InconsistentRule")
RuleVerdict(r) == RuleVerdictS(r, RuleSummary(r))

\* ---- C04: the type in force ----
YearInGuard(c, yic) == /\ (c > -5368710 \/ (c = -5368710 /\ yic >= 354))        \* i32::MIN + 2
                       /\ (c < 5368709 \/ (c = 5368709 /\ yic <= 45))           \* i32::MAX - 2
Years5(u) == LET yic == YicOfDay(u[2]) IN {YNorm(u[1], yic + k) : k \in -2..2}
\* DST periods are [S(y), E(y)) for a northern rule and [S(y), E(y+1)) for a southern one
InDst(r, sum, u) ==
  IF sum.startFirst THEN \E y \in Years5(u) : CLe(RS(r, y), u) /\ CLt(u, RE(r, y))
  ELSE \E y \in Years5(u) : CLe(RS(r, y), u) /\ CLt(u, RE(r, YNorm(y[1], y[2] + 1)))
\* set of admissible local time types at instant u, or OutOfRange
AltTypesAt(r, sum, u) ==
  IF ~InRange(u) \/ ~YearInGuard(u[1], YicOfDay(u[2])) THEN {}
  ELSE IF ~Interleaves(sum) \/ Degenerate(sum) THEN {r.std, r.dst}             \* outside C04's quantifier / unspecified
  ELSE IF InDst(r, sum, u) THEN {r.dst} ELSE {r.std}
RuleTypesAt(rule, sum, u) == IF rule.k = "fixed" THEN {rule.t} ELSE AltTypesAt(rule, sum, u)
=============================================================================
