------------------------------ MODULE TableWalk ------------------------------
(***************************************************************************)
(* The table half of find_date_time (src/datetime/find.rs, "Process        *)
(* transitions") for a transition table of ANY length - the loop that      *)
(* Algo.ATableWalk transcribes:                                            *)
(*     prev = -infinity; type = 0                                          *)
(*     for i in 1..N:                                                      *)
(*        ub = L - Off[i-1]              (candidate on the clock before)   *)
(*        if prev <= ub < T[i]:  push Normal(ub)                           *)
(*        else if (i < N or the zone has a rule) and ub >= T[i]            *)
(*                and L - Off[i] < T[i]:  push Skipped(T[i])               *)
(*        prev = T[i]                                                      *)
(* T = transition times (strictly increasing), Off[i] = UTC offset in      *)
(* force from transition i on (Off[0]: before the first), L = the searched *)
(* local time as a count of seconds.  Everything is on one time scale:     *)
(* with a leap table both sides of every comparison go through the         *)
(* monotone conversions proved in LeapScan / LeapInverse.                  *)
(*                                                                         *)
(* Proved for every N, T, Off, L:                                          *)
(*  - the Normal results are exactly the instants u before the last        *)
(*    transition at which the table's clock shows L: u + Off[k] = L where  *)
(*    k transitions are <= u (C05, table half);                            *)
(*  - the Skipped results are exactly the transitions j (the last one only *)
(*    if a rule follows) with T[j] + Off[j-1] <= L < T[j] + Off[j] - the   *)
(*    structural gap of C06 (which forces Off[j-1] < Off[j]);              *)
(*  - results are pushed in non-decreasing order of instant (C06).         *)
(* TLC checks the sequence form (Algo.ATableWalk) against the same         *)
(* declarative definitions on the scaled zones of MC_Zone.                 *)
(***************************************************************************)
EXTENDS Integers, NaturalsInduction, TLAPS
CONSTANTS N, T, Off, L, HasRule
ASSUME NAssump == N \in Nat
ASSUME Types == T \in [1..N -> Int] /\ Off \in [0..N -> Int] /\ L \in Int /\ HasRule \in BOOLEAN
ASSUME Increasing == \A j \in 1..(N - 1) : T[j] < T[j + 1]

VARIABLES i, normals, gaps, any, last, ordered, pc
vars == <<i, normals, gaps, any, last, ordered, pc>>

Ub(j) == L - Off[j - 1]
Ua(j) == L - Off[j]
IsNormal(j) == (j = 1 \/ T[j - 1] <= Ub(j)) /\ Ub(j) < T[j]
IsGap(j) == ~IsNormal(j) /\ (j < N \/ HasRule) /\ Ub(j) >= T[j] /\ Ua(j) < T[j]

Init == i = 1 /\ normals = {} /\ gaps = {} /\ any = FALSE /\ last = 0 /\ ordered = TRUE /\ pc = "Loop"
Loop == /\ pc = "Loop"
        /\ IF i <= N
           THEN /\ i' = i + 1 /\ pc' = "Loop"
                /\ IF IsNormal(i)
                   THEN /\ normals' = normals \cup {Ub(i)} /\ gaps' = gaps
                        /\ ordered' = (ordered /\ (any => last <= Ub(i))) /\ any' = TRUE /\ last' = Ub(i)
                   ELSE IF IsGap(i)
                   THEN /\ gaps' = gaps \cup {i} /\ normals' = normals
                        /\ ordered' = (ordered /\ (any => last <= T[i])) /\ any' = TRUE /\ last' = T[i]
                   ELSE UNCHANGED <<normals, gaps, any, last, ordered>>
           ELSE pc' = "Done" /\ UNCHANGED <<i, normals, gaps, any, last, ordered>>
Next == Loop
Spec == Init /\ [][Next]_vars

\* u lies in the k-th stretch of the table: after transition k (if any) and before transition k+1
InSeg(k, u) == (k = 0 \/ T[k] <= u) /\ u < T[k + 1]
\* the clock of the table shows L at u, u being in a stretch 0..m-1
ShowsL(u, m) == \E k \in 0..(m - 1) : InSeg(k, u) /\ u + Off[k] = L
\* the structural gap of C06 at transition j
GapAt(j) == (j < N \/ HasRule) /\ T[j] + Off[j - 1] <= L /\ L < T[j] + Off[j]

Correct == pc = "Done" =>
   /\ \A u \in Int : u \in normals <=> ShowsL(u, N)
   /\ \A j \in 1..N : j \in gaps <=> GapAt(j)
   /\ gaps \subseteq 1..N /\ normals \subseteq Int
   /\ ordered

TypeOK == /\ i \in 1..(N + 1) /\ normals \subseteq Int /\ gaps \subseteq 1..N /\ any \in BOOLEAN /\ last \in Int /\ ordered \in BOOLEAN
          /\ pc \in {"Loop", "Done"}
Inv == /\ TypeOK
       /\ \A u \in Int : u \in normals <=> ShowsL(u, i - 1)
       /\ \A j \in 1..N : j \in gaps <=> (j < i /\ GapAt(j))
       /\ ordered
       /\ any => (i >= 2 /\ last <= T[i - 1])
       /\ pc = "Done" => i = N + 1

\* InSeg(k, u) says exactly "k transitions are at or before u" (C03's reading): by monotonicity
LEMMA Mono == \A a, b \in 1..N : a < b => T[a] < T[b]
<1> DEFINE P(d) == \A a \in 1..N : (a + d + 1) \in 1..N => T[a] < T[a + d + 1]
<1>1. P(0)
  <2> SUFFICES ASSUME NEW a \in 1..N, (a + 0 + 1) \in 1..N PROVE T[a] < T[a + 0 + 1]
    OBVIOUS
  <2>1. a \in 1..(N - 1) /\ a + 0 + 1 = a + 1
    BY NAssump
  <2> QED BY <2>1, Increasing
<1>2. \A d \in Nat : P(d) => P(d + 1)
  <2> SUFFICES ASSUME NEW d \in Nat, P(d), NEW a \in 1..N, (a + (d + 1) + 1) \in 1..N PROVE T[a] < T[a + (d + 1) + 1]
    OBVIOUS
  <2>1. (a + d + 1) \in 1..(N - 1) /\ (a + d + 1) \in 1..N /\ (a + d + 1) + 1 = a + (d + 1) + 1
    BY NAssump
  <2>2. T[a] < T[a + d + 1]
    BY <2>1
  <2>3. T[a + d + 1] < T[(a + d + 1) + 1]
    BY <2>1, Increasing
  <2>4. T[a] \in Int /\ T[a + d + 1] \in Int /\ T[a + (d + 1) + 1] \in Int
    BY <2>1, Types
  <2> QED BY <2>1, <2>2, <2>3, <2>4
<1>3. \A d \in Nat : P(d)
  BY <1>1, <1>2, NatInduction, Isa
<1> SUFFICES ASSUME NEW a \in 1..N, NEW b \in 1..N, a < b PROVE T[a] < T[b]
  OBVIOUS
<1>4. b - a - 1 \in Nat /\ a + (b - a - 1) + 1 = b
  BY NAssump
<1> QED BY <1>3, <1>4

THEOREM SegMeaning == \A k \in 0..(N - 1), u \in Int : InSeg(k, u) =>
                          (\A j \in 1..k : T[j] <= u) /\ (\A j \in (k + 1)..N : u < T[j])
<1> SUFFICES ASSUME NEW k \in 0..(N - 1), NEW u \in Int, InSeg(k, u)
             PROVE (\A j \in 1..k : T[j] <= u) /\ (\A j \in (k + 1)..N : u < T[j])
  OBVIOUS
<1>1. ASSUME NEW j \in 1..k PROVE T[j] <= u
  <2>1. k \in 1..N /\ j \in 1..N /\ T[k] <= u /\ T[j] \in Int /\ T[k] \in Int
    BY NAssump, Types DEF InSeg
  <2>2. CASE j = k
    BY <2>1, <2>2
  <2>3. CASE j < k
    BY <2>1, <2>3, Mono
  <2> QED BY <2>2, <2>3
<1>2. ASSUME NEW j \in (k + 1)..N PROVE u < T[j]
  <2>1. k + 1 \in 1..N /\ j \in 1..N /\ u < T[k + 1] /\ T[j] \in Int /\ T[k + 1] \in Int
    BY NAssump, Types DEF InSeg
  <2>2. CASE j = k + 1
    BY <2>1, <2>2
  <2>3. CASE k + 1 < j
    BY <2>1, <2>3, Mono
  <2> QED BY <2>2, <2>3
<1> QED BY <1>1, <1>2

LEMMA InitInv == Init => Inv
<1> SUFFICES ASSUME Init PROVE Inv
  OBVIOUS
<1>1. TypeOK
  BY NAssump DEF Init, TypeOK
<1>2. \A u \in Int : u \in normals <=> ShowsL(u, i - 1)
  BY DEF Init, ShowsL
<1>3. \A j \in 1..N : j \in gaps <=> (j < i /\ GapAt(j))
  BY DEF Init
<1> QED BY <1>1, <1>2, <1>3 DEF Init, Inv

LEMMA StepInv == Inv /\ [Next]_vars => Inv'
<1> SUFFICES ASSUME Inv, [Next]_vars PROVE Inv'
  OBVIOUS
<1>1. CASE UNCHANGED vars
  BY <1>1 DEF Inv, TypeOK, vars, ShowsL, InSeg, GapAt
<1>2. CASE Loop /\ ~(i <= N)
  <2>1. pc' = "Done" /\ UNCHANGED <<i, normals, gaps, any, last, ordered>> /\ i = N + 1
    BY <1>2, NAssump DEF Loop, Inv, TypeOK
  <2> QED BY <2>1 DEF Inv, TypeOK, ShowsL, InSeg, GapAt
<1>3. CASE Loop /\ i <= N
  <2>0. i \in 1..N /\ i' = i + 1 /\ pc' = "Loop" /\ i - 1 \in 0..N /\ i \in 0..N
    BY <1>3, NAssump DEF Loop, Inv, TypeOK
  <2>1. T[i] \in Int /\ Off[i - 1] \in Int /\ Off[i] \in Int /\ Ub(i) \in Int /\ Ua(i) \in Int
    BY <2>0, Types DEF Ub, Ua
  <2>2. i >= 2 => (i - 1 \in 1..N /\ T[i - 1] \in Int /\ T[i - 1] < T[i] /\ i - 1 \in 1..(N - 1) /\ (i - 1) + 1 = i)
    <3>1. ASSUME i >= 2 PROVE i - 1 \in 1..(N - 1) /\ (i - 1) + 1 = i /\ i - 1 \in 1..N
      BY <3>1, <2>0, NAssump
    <3> QED BY <3>1, Increasing, Types
  \* the new stretch i-1 contributes exactly the candidate Ub(i), and only if it lies inside
  <2>3. \A u \in Int : ShowsL(u, (i + 1) - 1) <=> (ShowsL(u, i - 1) \/ (IsNormal(i) /\ u = Ub(i)))
    <3> SUFFICES ASSUME NEW u \in Int PROVE ShowsL(u, (i + 1) - 1) <=> (ShowsL(u, i - 1) \/ (IsNormal(i) /\ u = Ub(i)))
      OBVIOUS
    <3>1. (i + 1) - 1 = i /\ 0..(i - 1) = (0..((i - 1) - 1)) \cup {i - 1} /\ (i - 1) + 1 = i
      BY <2>0
    <3>2. ShowsL(u, i) <=> (ShowsL(u, i - 1) \/ (InSeg(i - 1, u) /\ u + Off[i - 1] = L))
      BY <3>1 DEF ShowsL
    <3>3. (InSeg(i - 1, u) /\ u + Off[i - 1] = L) <=> (IsNormal(i) /\ u = Ub(i))
      <4>1. u + Off[i - 1] = L <=> u = Ub(i)
        BY <2>1, Types DEF Ub
      <4>2. InSeg(i - 1, u) <=> ((i = 1 \/ T[i - 1] <= u) /\ u < T[i])
        BY <3>1, <2>0 DEF InSeg
      <4> QED BY <4>1, <4>2 DEF IsNormal
    <3> QED BY <3>1, <3>2, <3>3
  <2>4. IsGap(i) <=> GapAt(i)
    <3>1. (Ub(i) >= T[i] /\ Ua(i) < T[i]) <=> (T[i] + Off[i - 1] <= L /\ L < T[i] + Off[i])
      BY <2>1, Types DEF Ub, Ua
    <3>2. (Ub(i) >= T[i]) => ~IsNormal(i)
      BY <2>1 DEF IsNormal
    <3> QED BY <3>1, <3>2 DEF IsGap, GapAt
  <2>5. ~(IsNormal(i) /\ IsGap(i))
    BY DEF IsGap
  <2>6. CASE IsNormal(i)
    <3>1. /\ normals' = normals \cup {Ub(i)} /\ gaps' = gaps
          /\ ordered' = (ordered /\ (any => last <= Ub(i))) /\ any' = TRUE /\ last' = Ub(i)
      BY <1>3, <2>6 DEF Loop
    <3>2. ~GapAt(i)
      BY <2>4, <2>5, <2>6
    <3>3. TypeOK'
      BY <3>1, <2>0, <2>1, NAssump DEF Inv, TypeOK
    <3>4. \A u \in Int : u \in normals' <=> ShowsL(u, i' - 1)
      BY <3>1, <2>0, <2>3, <2>6 DEF Inv
    <3>5. \A j \in 1..N : j \in gaps' <=> (j < i' /\ GapAt(j))
      <4> SUFFICES ASSUME NEW j \in 1..N PROVE j \in gaps' <=> (j < i' /\ GapAt(j))
        OBVIOUS
      <4>1. j < i + 1 <=> (j < i \/ j = i)
        BY <2>0
      <4> QED BY <4>1, <3>1, <3>2, <2>0 DEF Inv
    <3>6. ordered'
      <4>1. any => last <= Ub(i)
        <5>1. ASSUME any PROVE last <= Ub(i)
          <6>1. i >= 2 /\ last <= T[i - 1] /\ last \in Int
            BY <5>1 DEF Inv, TypeOK
          <6>2. T[i - 1] <= Ub(i) /\ T[i - 1] \in Int
            BY <6>1, <2>6, <2>2 DEF IsNormal
          <6> QED BY <6>1, <6>2, <2>1
        <5> QED BY <5>1
      <4> QED BY <4>1, <3>1 DEF Inv
    <3>7. any' => (i' >= 2 /\ last' <= T[i' - 1])
      <4>1. Ub(i) < T[i] /\ (i + 1) - 1 = i /\ i + 1 >= 2
        BY <2>6, <2>0 DEF IsNormal
      <4> QED BY <4>1, <3>1, <2>0, <2>1
    <3>8. pc' = "Done" => i' = N + 1
      BY <2>0
    <3> QED BY <3>3, <3>4, <3>5, <3>6, <3>7, <3>8 DEF Inv
  <2>7. CASE ~IsNormal(i) /\ IsGap(i)
    <3>1. /\ gaps' = gaps \cup {i} /\ normals' = normals
          /\ ordered' = (ordered /\ (any => last <= T[i])) /\ any' = TRUE /\ last' = T[i]
      BY <1>3, <2>7 DEF Loop
    <3>3. TypeOK'
      BY <3>1, <2>0, <2>1, NAssump DEF Inv, TypeOK
    <3>4. \A u \in Int : u \in normals' <=> ShowsL(u, i' - 1)
      BY <3>1, <2>0, <2>3, <2>7 DEF Inv
    <3>5. \A j \in 1..N : j \in gaps' <=> (j < i' /\ GapAt(j))
      <4> SUFFICES ASSUME NEW j \in 1..N PROVE j \in gaps' <=> (j < i' /\ GapAt(j))
        OBVIOUS
      <4>1. j < i + 1 <=> (j < i \/ j = i)
        BY <2>0
      <4>2. GapAt(i)
        BY <2>4, <2>7
      <4> QED BY <4>1, <4>2, <3>1, <2>0 DEF Inv
    <3>6. ordered'
      <4>1. any => last <= T[i]
        <5>1. ASSUME any PROVE last <= T[i]
          <6>1. i >= 2 /\ last <= T[i - 1] /\ last \in Int
            BY <5>1 DEF Inv, TypeOK
          <6> QED BY <6>1, <2>2, <2>1
        <5> QED BY <5>1
      <4> QED BY <4>1, <3>1 DEF Inv
    <3>7. any' => (i' >= 2 /\ last' <= T[i' - 1])
      <4>1. (i + 1) - 1 = i /\ i + 1 >= 2
        BY <2>0
      <4> QED BY <4>1, <3>1, <2>0, <2>1
    <3>8. pc' = "Done" => i' = N + 1
      BY <2>0
    <3> QED BY <3>3, <3>4, <3>5, <3>6, <3>7, <3>8 DEF Inv
  <2>8. CASE ~IsNormal(i) /\ ~IsGap(i)
    <3>1. UNCHANGED <<normals, gaps, any, last, ordered>>
      BY <1>3, <2>8 DEF Loop
    <3>3. TypeOK'
      BY <3>1, <2>0, NAssump DEF Inv, TypeOK
    <3>4. \A u \in Int : u \in normals' <=> ShowsL(u, i' - 1)
      BY <3>1, <2>0, <2>3, <2>8 DEF Inv
    <3>5. \A j \in 1..N : j \in gaps' <=> (j < i' /\ GapAt(j))
      <4> SUFFICES ASSUME NEW j \in 1..N PROVE j \in gaps' <=> (j < i' /\ GapAt(j))
        OBVIOUS
      <4>1. j < i + 1 <=> (j < i \/ j = i)
        BY <2>0
      <4>2. ~GapAt(i)
        BY <2>4, <2>8
      <4> QED BY <4>1, <4>2, <3>1, <2>0 DEF Inv
    <3>6. ordered'
      BY <3>1 DEF Inv
    <3>7. any' => (i' >= 2 /\ last' <= T[i' - 1])
      <4>1. ASSUME any PROVE i + 1 >= 2 /\ last <= T[(i + 1) - 1]
        <5>1. i >= 2 /\ last <= T[i - 1] /\ last \in Int
          BY <4>1 DEF Inv, TypeOK
        <5>2. (i + 1) - 1 = i
          BY <2>0
        <5> QED BY <5>1, <5>2, <2>2, <2>1
      <4> QED BY <4>1, <3>1, <2>0
    <3>8. pc' = "Done" => i' = N + 1
      BY <2>0
    <3> QED BY <3>3, <3>4, <3>5, <3>6, <3>7, <3>8 DEF Inv
  <2> QED BY <2>6, <2>7, <2>8
<1> QED BY <1>1, <1>2, <1>3 DEF Next

LEMMA InvCorrect == Inv => Correct
<1> SUFFICES ASSUME Inv, pc = "Done"
             PROVE /\ \A u \in Int : u \in normals <=> ShowsL(u, N)
                   /\ \A j \in 1..N : j \in gaps <=> GapAt(j)
                   /\ gaps \subseteq 1..N /\ normals \subseteq Int
                   /\ ordered
  BY DEF Correct
<1>1. i = N + 1 /\ i - 1 = N
  BY NAssump DEF Inv
<1>2. \A j \in 1..N : j < i
  BY <1>1, NAssump
<1> QED BY <1>1, <1>2 DEF Inv, TypeOK

THEOREM Safety == Spec => []Correct
<1>1. Spec => []Inv
  BY InitInv, StepInv, PTL DEF Spec
<1> QED BY <1>1, InvCorrect, PTL
=============================================================================
