----------------------------- MODULE BinSearch -----------------------------
(***************************************************************************)
(* impl_binary_search! (src/utils/const_fns.rs) for a table of ANY length: *)
(* the loop of AlgoSearch.tla with the table, its length and the key as    *)
(* unconstrained constants, an inductive invariant, and a machine-checked  *)
(* proof (TLAPS) that the result is the one find_local_time_type and       *)
(* unix_leap_time_to_unix_time rely on:                                    *)
(*   Ok(v)  => tab[v] = x            (0-based v: the element at v + 1)     *)
(*   Err(v) => everything before position v is < x, everything from v on   *)
(*             is > x   (v = the insertion point)                          *)
(* so that in both cases "Ok(v) => v + 1, Err(v) => v" is the number of    *)
(* entries <= x, i.e. the index of the latest transition at or before x.   *)
(* TLC checks the same statements for all tables up to length 4 in         *)
(* AlgoSearch.tla; this module removes the bound.                          *)
(***************************************************************************)
EXTENDS Integers, TLAPS
CONSTANTS N, tab, x
ASSUME NAssump == N \in Nat
ASSUME TabAssump == tab \in [1..N -> Int]
ASSUME Sorted == \A i, j \in 1..N : i < j => tab[i] < tab[j]
ASSUME XAssump == x \in Int
VARIABLES size, left, right, kind, val, pc
vars == <<size, left, right, kind, val, pc>>

Init == /\ size = N /\ left = 0 /\ right = N /\ kind = "none" /\ val = 0 /\ pc = "Loop"
Mid == left + size \div 2
Loop == /\ pc = "Loop"
        /\ IF left < right /\ kind = "none"
           THEN /\ IF tab[Mid + 1] < x
                   THEN left' = Mid + 1 /\ UNCHANGED <<right, kind, val>>
                   ELSE IF tab[Mid + 1] > x
                        THEN right' = Mid /\ UNCHANGED <<left, kind, val>>
                        ELSE kind' = "Ok" /\ val' = Mid /\ UNCHANGED <<left, right>>
                /\ size' = right' - left'
                /\ pc' = "Loop"
           ELSE /\ pc' = "Finish" /\ UNCHANGED <<size, left, right, kind, val>>
Finish == /\ pc = "Finish"
          /\ IF kind = "none" THEN kind' = "Err" /\ val' = left ELSE UNCHANGED <<kind, val>>
          /\ pc' = "Done" /\ UNCHANGED <<size, left, right>>
Next == Loop \/ Finish
Spec == Init /\ [][Next]_vars

\* number of entries <= x, stated without counting: the position p such that tab[1..p] <= x < tab[p+1..N]
IsCount(p) == p \in 0..N /\ (\A i \in 1..p : tab[i] <= x) /\ (\A i \in (p + 1)..N : tab[i] > x)
Result == IF kind = "Ok" THEN val + 1 ELSE val              \* Ok(x) => x + 1, Err(x) => x
Correct == pc = "Done" =>
   /\ kind \in {"Ok", "Err"}
   /\ (kind = "Ok" => val \in 0..(N - 1) /\ tab[val + 1] = x)
   /\ (kind = "Err" => val \in 0..N /\ (\A i \in 1..val : tab[i] < x) /\ (\A i \in (val + 1)..N : tab[i] > x))
   /\ IsCount(Result)

Inv == /\ pc \in {"Loop", "Finish", "Done"}
       /\ left \in 0..N /\ right \in 0..N /\ left <= right
       /\ size = right - left
       /\ kind \in {"none", "Ok", "Err"}
       /\ \A i \in 1..left : tab[i] < x
       /\ \A i \in (right + 1)..N : tab[i] > x
       /\ (kind = "Ok" => val \in 0..(N - 1) /\ tab[val + 1] = x)
       /\ (kind = "Err" => pc = "Done" /\ val = left /\ left = right)
       /\ (pc = "Finish" => (kind = "none" => left = right))
       /\ (pc = "Done" => kind # "none")

LEMMA InitInv == Init => Inv
  BY NAssump DEF Init, Inv

LEMMA NextInv == Inv /\ [Next]_vars => Inv'
<1> SUFFICES ASSUME Inv, [Next]_vars PROVE Inv'
  OBVIOUS
<1>1. CASE Loop
  <2>1. CASE left < right /\ kind = "none"
    <3>1. Mid \in left..(right - 1)
      BY <2>1, NAssump DEF Inv, Mid
    <3>2. Mid + 1 \in 1..N
      BY <3>1, NAssump DEF Inv
    <3>3. tab[Mid + 1] \in Int
      BY <3>2, TabAssump
    <3>4. CASE tab[Mid + 1] < x
      <4>1. left' = Mid + 1 /\ right' = right /\ kind' = kind /\ val' = val /\ size' = right' - left' /\ pc' = "Loop"
        BY <1>1, <2>1, <3>4 DEF Loop
      <4>2. \A i \in 1..(Mid + 1) : tab[i] < x
        BY <3>4, <3>2, <3>3, Sorted, TabAssump, XAssump, NAssump
      <4> QED BY <4>1, <4>2, <3>1, <2>1, NAssump DEF Inv
    <3>5. CASE ~(tab[Mid + 1] < x) /\ tab[Mid + 1] > x
      <4>1. right' = Mid /\ left' = left /\ kind' = kind /\ val' = val /\ size' = right' - left' /\ pc' = "Loop"
        BY <1>1, <2>1, <3>5 DEF Loop
      <4>2. \A i \in (Mid + 1)..N : tab[i] > x
        BY <3>5, <3>2, <3>3, Sorted, TabAssump, XAssump, NAssump
      <4> QED BY <4>1, <4>2, <3>1, <2>1, NAssump DEF Inv
    <3>6. CASE ~(tab[Mid + 1] < x) /\ ~(tab[Mid + 1] > x)
      <4>1. kind' = "Ok" /\ val' = Mid /\ left' = left /\ right' = right /\ size' = right' - left' /\ pc' = "Loop"
        BY <1>1, <2>1, <3>6 DEF Loop
      <4>2. tab[Mid + 1] = x
        BY <3>6, <3>3, XAssump
      <4> QED BY <4>1, <4>2, <3>1, <3>2, <2>1, NAssump DEF Inv
    <3> QED BY <3>4, <3>5, <3>6
  <2>2. CASE ~(left < right /\ kind = "none")
    <3>1. pc' = "Finish" /\ UNCHANGED <<size, left, right, kind, val>>
      BY <1>1, <2>2 DEF Loop
    <3> QED BY <3>1, <2>2, <1>1, NAssump DEF Inv, Loop
  <2> QED BY <2>1, <2>2
<1>2. CASE Finish
  BY <1>2, NAssump DEF Inv, Finish
<1>3. CASE UNCHANGED vars
  BY <1>3 DEF Inv, vars
<1> QED BY <1>1, <1>2, <1>3 DEF Next

LEMMA InvCorrect == Inv => Correct
<1> SUFFICES ASSUME Inv, pc = "Done" PROVE /\ kind \in {"Ok", "Err"}
                                           /\ (kind = "Ok" => val \in 0..(N - 1) /\ tab[val + 1] = x)
                                           /\ (kind = "Err" => val \in 0..N /\ (\A i \in 1..val : tab[i] < x) /\ (\A i \in (val + 1)..N : tab[i] > x))
                                           /\ IsCount(Result)
  BY DEF Correct
<1>1. kind \in {"Ok", "Err"}
  BY DEF Inv
<1>2. kind = "Ok" => val \in 0..(N - 1) /\ tab[val + 1] = x
  BY DEF Inv
<1>3. kind = "Err" => val \in 0..N /\ (\A i \in 1..val : tab[i] < x) /\ (\A i \in (val + 1)..N : tab[i] > x)
  BY NAssump DEF Inv
<1>4. IsCount(Result)
  <2>1. CASE kind = "Ok"
    <3>1. val + 1 \in 1..N /\ tab[val + 1] = x
      BY <2>1, <1>2, NAssump
    <3>2. \A i \in 1..(val + 1) : tab[i] <= x
      BY <3>1, Sorted, TabAssump, XAssump, NAssump
    <3>3. \A i \in ((val + 1) + 1)..N : tab[i] > x
      <4> SUFFICES ASSUME NEW i \in ((val + 1) + 1)..N PROVE tab[i] > x
        OBVIOUS
      <4>1. i \in 1..N /\ val + 1 < i
        BY <3>1, NAssump
      <4>2. tab[val + 1] < tab[i]
        BY <4>1, <3>1, Sorted
      <4>3. tab[i] \in Int
        BY <4>1, TabAssump
      <4> QED BY <4>2, <4>3, <3>1, XAssump
    <3>4. Result = val + 1 /\ val + 1 \in 0..N
      BY <2>1, <3>1, NAssump DEF Result
    <3> QED BY <3>2, <3>3, <3>4 DEF IsCount
  <2>2. CASE kind = "Err"
    <3>1. val \in 0..N /\ (\A i \in 1..val : tab[i] < x) /\ (\A i \in (val + 1)..N : tab[i] > x)
      BY <2>2, <1>3
    <3>2. \A i \in 1..val : tab[i] <= x
      BY <3>1, TabAssump, XAssump, NAssump
    <3> QED BY <2>2, <3>1, <3>2 DEF IsCount, Result
  <2> QED BY <2>1, <2>2, <1>1
<1> QED BY <1>1, <1>2, <1>3, <1>4

THEOREM Safety == Spec => []Correct
<1>1. Spec => []Inv
  BY InitInv, NextInv, PTL DEF Spec
<1> QED BY <1>1, InvCorrect, PTL
=============================================================================
