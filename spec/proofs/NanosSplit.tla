----------------------------- MODULE NanosSplit -----------------------------
(***************************************************************************)
(* C16 for EVERY integer count of nanoseconds (no 128-bit bound): the      *)
(* split of DateTime.tla, Split(n) = (n \div 10^9, n % 10^9), is the       *)
(* unique pair (q, r) with n = q * 10^9 + r and 0 <= r < 10^9 (so "floor"  *)
(* is not a convention of the specification but forced by the statement),  *)
(* recombining gives n back, and the split is monotone: a larger count     *)
(* never gives an earlier (seconds, nanoseconds) pair.  Machine-checked    *)
(* with TLAPS; MC_Wide / MC_Nanos check the limb arithmetic that carries   *)
(* the same operators beyond TLC's 32-bit integers.                        *)
(***************************************************************************)
EXTENDS Integers, TLAPS
G == 1000000000
Q(n) == n \div G
Rm(n) == n % G

THEOREM SplitJoin == \A n \in Int : Q(n) \in Int /\ Rm(n) \in 0..(G - 1) /\ n = Q(n) * G + Rm(n)
  BY DEF Q, Rm, G

THEOREM Unique == \A n, q, r \in Int : (0 <= r /\ r < G /\ n = q * G + r) => (q = Q(n) /\ r = Rm(n))
  BY DEF Q, Rm, G

THEOREM Monotone == \A n, m \in Int : n <= m => (Q(n) < Q(m) \/ (Q(n) = Q(m) /\ Rm(n) <= Rm(m)))
<1> SUFFICES ASSUME NEW n \in Int, NEW m \in Int, n <= m PROVE Q(n) < Q(m) \/ (Q(n) = Q(m) /\ Rm(n) <= Rm(m))
  OBVIOUS
<1>1. Q(n) \in Int /\ Rm(n) \in 0..(G - 1) /\ n = Q(n) * G + Rm(n)
  BY SplitJoin
<1>2. Q(m) \in Int /\ Rm(m) \in 0..(G - 1) /\ m = Q(m) * G + Rm(m)
  BY SplitJoin
<1> QED BY <1>1, <1>2 DEF G

\* the next count: either the nanoseconds advance by one or they wrap to 0 and the seconds advance by one
THEOREM Successor == \A n \in Int : \/ (Q(n + 1) = Q(n) /\ Rm(n + 1) = Rm(n) + 1)
                                    \/ (Q(n + 1) = Q(n) + 1 /\ Rm(n + 1) = 0 /\ Rm(n) = G - 1)
<1> SUFFICES ASSUME NEW n \in Int PROVE \/ (Q(n + 1) = Q(n) /\ Rm(n + 1) = Rm(n) + 1)
                                        \/ (Q(n + 1) = Q(n) + 1 /\ Rm(n + 1) = 0 /\ Rm(n) = G - 1)
  OBVIOUS
<1>1. Q(n) \in Int /\ Rm(n) \in 0..(G - 1) /\ n = Q(n) * G + Rm(n)
  BY SplitJoin
<1>2. CASE Rm(n) < G - 1
  <2>1. 0 <= Rm(n) + 1 /\ Rm(n) + 1 < G /\ n + 1 = Q(n) * G + (Rm(n) + 1) /\ Rm(n) + 1 \in Int /\ n + 1 \in Int
    BY <1>1, <1>2 DEF G
  <2> QED BY <2>1, <1>1, Unique
<1>3. CASE Rm(n) = G - 1
  <2>1. n + 1 = (Q(n) + 1) * G + 0 /\ Q(n) + 1 \in Int /\ n + 1 \in Int
    BY <1>1, <1>3 DEF G
  <2>2. 0 <= 0 /\ 0 < G /\ 0 \in Int
    BY DEF G
  <2> QED BY <2>1, <2>2, <1>3, Unique
<1> QED BY <1>1, <1>2, <1>3 DEF G
=============================================================================
