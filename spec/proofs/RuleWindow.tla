----------------------------- MODULE RuleWindow -----------------------------
(***************************************************************************)
(* The trailing-rule part of find_date_time (spec/Algo.tla: ARulePart /    *)
(* ARuleWalk) against the preimage definition of Find.tla, for EVERY       *)
(* interleaving rule, every year and every lower bound at once.            *)
(*                                                                         *)
(* The code lists the six start/end instants of the years y-1, y, y+1 of   *)
(* the searched local year y (plus a sentinel), keeps them if they ascend  *)
(* (northern rule) or swaps them pairwise (southern rule), drops those not *)
(* after the last table transition prev0, and walks the rest: in the       *)
(* interval ending at a start instant the standard-time candidate uS is a  *)
(* result, in the interval ending at an end instant the daylight candidate *)
(* uD is.  Proved here (TLAPS), with S, E, NY unconstrained functions on   *)
(* the integers under the hypotheses of RuleTree.tla plus                  *)
(*   - the candidates are the local reading minus an offset of at most B,  *)
(*     B + W < Y (B = 26 h), and the local reading L lies in year y:       *)
(*  North:  uS is returned  <=>  prev0 <= uS and uS is NOT in a DST period *)
(*          uD is returned  <=>  prev0 <= uD and uD IS in a DST period     *)
(*  South:  the same with the periods [S[k], E[k+1]).                      *)
(* i.e. exactly the instants >= prev0 whose clock (period definition)      *)
(* shows the searched local time - the rule half of Find.ValidInstants.    *)
(* Accepted rules that do not interleave (finding K1) satisfy neither      *)
(* ordering hypothesis; TLC's witness W_K1 shows the duplicate they cause. *)
(***************************************************************************)
EXTENDS Integers, TLAPS
CONSTANTS S, E, NY, Y, W, B, y, uS, uD, prev0
ASSUME Types == S \in [Int -> Int] /\ E \in [Int -> Int] /\ NY \in [Int -> Int] /\ Y \in Int /\ W \in Int /\ B \in Int
                /\ y \in Int /\ uS \in Int /\ uD \in Int /\ prev0 \in Int
ASSUME Margin == 0 <= W /\ 0 <= B /\ B + W < Y
ASSUME Years == \A i, j \in Int : i < j => NY[i] + Y <= NY[j]
ASSUME Near == \A k \in Int : NY[k] - W <= S[k] /\ S[k] <= NY[k + 1] + W /\ NY[k] - W <= E[k] /\ E[k] <= NY[k + 1] + W
\* the candidates: the searched local reading lies in year y, each candidate is within B of it
ASSUME Cand == NY[y] - B <= uS /\ uS < NY[y + 1] + B /\ NY[y] - B <= uD /\ uD < NY[y + 1] + B

North == \A k \in Int : S[k] <= E[k] /\ E[k] <= S[k + 1]
South == \A k \in Int : E[k] <= S[k] /\ S[k] <= E[k + 1]
DstNorth(u) == \E k \in Int : S[k] <= u /\ u < E[k]
DstSouth(u) == \E k \in Int : S[k] <= u /\ u < E[k + 1]

\* ---- the walk: interval i ends at T(i); it starts at the previous listed instant if that one is after prev0, else at prev0 ----
Lo(tPrev) == IF prev0 < tPrev THEN tPrev ELSE prev0
In(tPrev, t, u) == prev0 < t /\ Lo(tPrev) <= u /\ u < t          \* u is taken in the interval ending at t (t is still listed)
First(t, u) == prev0 < t /\ prev0 <= u /\ u < t                  \* the same for the first listed instant
Last(tPrev, u) == Lo(tPrev) <= u                                  \* the interval ending at the sentinel

\* northern order: S[y-1], E[y-1], S[y], E[y], S[y+1], E[y+1]; intervals ending at a start take uS, at an end take uD
WalkStdN == \/ First(S[y - 1], uS) \/ In(E[y - 1], S[y], uS) \/ In(E[y], S[y + 1], uS) \/ Last(E[y + 1], uS)
WalkDstN == \/ In(S[y - 1], E[y - 1], uD) \/ In(S[y], E[y], uD) \/ In(S[y + 1], E[y + 1], uD)
\* southern order (pairs swapped): E[y-1], S[y-1], E[y], S[y], E[y+1], S[y+1]
WalkDstS == \/ First(E[y - 1], uD) \/ In(S[y - 1], E[y], uD) \/ In(S[y], E[y + 1], uD) \/ Last(S[y + 1], uD)
WalkStdS == \/ In(E[y - 1], S[y - 1], uS) \/ In(E[y], S[y], uS) \/ In(E[y + 1], S[y + 1], uS)

\* ---- years far from y cannot matter (as in RuleTree.tla, with the offset margin B) ----
LEMMA Past == ASSUME NEW u \in Int, NY[y] - B <= u, NEW k \in Int, k <= y - 2 PROVE E[k] <= u /\ S[k] <= u
<1>1. k + 1 \in Int /\ y - 1 \in Int /\ y \in Int /\ k + 1 <= y - 1
  BY Types
<1>2. NY[k + 1] <= NY[y - 1]
  <2>0. NY[k + 1] \in Int /\ NY[y - 1] \in Int /\ Y \in Int /\ W \in Int /\ B \in Int
    BY Types, <1>1
  <2>1. CASE k + 1 = y - 1
    BY <2>1, <2>0
  <2>2. CASE k + 1 < y - 1
    <3>1. NY[k + 1] + Y <= NY[y - 1]
      BY <2>2, <1>1, Years
    <3> QED BY <3>1, <2>0, Margin
  <2> QED BY <2>1, <2>2, <1>1
<1>3. NY[y - 1] + Y <= NY[y]
  BY Years, <1>1
<1>4. E[k] <= NY[k + 1] + W /\ S[k] <= NY[k + 1] + W
  BY Near
<1>5. NY[k + 1] \in Int /\ NY[y - 1] \in Int /\ NY[y] \in Int /\ E[k] \in Int /\ S[k] \in Int /\ Y \in Int /\ W \in Int /\ B \in Int
  BY Types, <1>1
<1> QED BY <1>2, <1>3, <1>4, <1>5, Margin

LEMMA Future == ASSUME NEW u \in Int, u < NY[y + 1] + B, NEW k \in Int, k >= y + 2 PROVE u < S[k] /\ u < E[k]
<1>1. y + 1 \in Int /\ y + 2 \in Int /\ y + 1 < y + 2 /\ y + 2 <= k
  BY Types
<1>2. NY[y + 2] <= NY[k]
  <2>0. NY[y + 2] \in Int /\ NY[k] \in Int /\ Y \in Int /\ W \in Int /\ B \in Int
    BY Types, <1>1
  <2>1. CASE y + 2 = k
    BY <2>1, <2>0
  <2>2. CASE y + 2 < k
    <3>1. NY[y + 2] + Y <= NY[k]
      BY <2>2, <1>1, Years
    <3> QED BY <3>1, <2>0, Margin
  <2> QED BY <2>1, <2>2, <1>1
<1>3. NY[y + 1] + Y <= NY[y + 2]
  BY Years, <1>1
<1>4. NY[k] - W <= S[k] /\ NY[k] - W <= E[k]
  BY Near
<1>5. NY[k] \in Int /\ NY[y + 2] \in Int /\ NY[y + 1] \in Int /\ E[k] \in Int /\ S[k] \in Int /\ Y \in Int /\ W \in Int /\ B \in Int
  BY Types, <1>1
<1>6. u < NY[y + 1] + B
  OBVIOUS
<1>7. NY[y + 1] + B < NY[y + 2] - W
  BY <1>3, <1>5, Margin
<1>8. u < NY[k] - W
  BY <1>2, <1>5, <1>6, <1>7
<1>9. NY[k] - W \in Int /\ S[k] \in Int /\ E[k] \in Int /\ NY[k] - W <= S[k] /\ NY[k] - W <= E[k]
  BY <1>4, <1>5
<1>10. u < S[k]
  BY <1>8, <1>9
<1>11. u < E[k]
  BY <1>8, <1>9
<1> QED BY <1>10, <1>11

LEMMA NorthWindow == ASSUME NEW u \in Int, NY[y] - B <= u, u < NY[y + 1] + B
                     PROVE  DstNorth(u) <=> \/ (S[y - 1] <= u /\ u < E[y - 1]) \/ (S[y] <= u /\ u < E[y]) \/ (S[y + 1] <= u /\ u < E[y + 1])
<1>1. ASSUME DstNorth(u) PROVE \/ (S[y - 1] <= u /\ u < E[y - 1]) \/ (S[y] <= u /\ u < E[y]) \/ (S[y + 1] <= u /\ u < E[y + 1])
  <2>1. PICK k \in Int : S[k] <= u /\ u < E[k]
    BY <1>1 DEF DstNorth
  <2>2. ~(k <= y - 2)
    <3>1. ASSUME k <= y - 2 PROVE FALSE
      <4>1. E[k] <= u
        BY <3>1, Past
      <4>2. E[k] \in Int
        BY Types
      <4> QED BY <4>1, <4>2, <2>1
    <3> QED BY <3>1
  <2>3. ~(k >= y + 2)
    <3>1. ASSUME k >= y + 2 PROVE FALSE
      <4>1. u < S[k]
        BY <3>1, Future
      <4>2. S[k] \in Int
        BY Types
      <4> QED BY <4>1, <4>2, <2>1
    <3> QED BY <3>1
  <2>4. k = y - 1 \/ k = y \/ k = y + 1
    <3>1. y \in Int
      BY Types
    <3> QED BY <2>2, <2>3, <3>1
  <2> QED BY <2>1, <2>4
<1>2. ASSUME \/ (S[y - 1] <= u /\ u < E[y - 1]) \/ (S[y] <= u /\ u < E[y]) \/ (S[y + 1] <= u /\ u < E[y + 1]) PROVE DstNorth(u)
  <2>1. y - 1 \in Int /\ y + 1 \in Int /\ y \in Int
    BY Types
  <2> QED BY <1>2, <2>1 DEF DstNorth
<1> QED BY <1>1, <1>2

LEMMA SouthWindow == ASSUME NEW u \in Int, NY[y] - B <= u, u < NY[y + 1] + B
                     PROVE  DstSouth(u) <=> \/ (S[y - 2] <= u /\ u < E[y - 1]) \/ (S[y - 1] <= u /\ u < E[y])
                                            \/ (S[y] <= u /\ u < E[y + 1]) \/ (S[y + 1] <= u /\ u < E[y + 2])
<1>1. ASSUME DstSouth(u) PROVE \/ (S[y - 2] <= u /\ u < E[y - 1]) \/ (S[y - 1] <= u /\ u < E[y]) \/ (S[y] <= u /\ u < E[y + 1]) \/ (S[y + 1] <= u /\ u < E[y + 2])
  <2>1. PICK k \in Int : S[k] <= u /\ u < E[k + 1]
    BY <1>1 DEF DstSouth
  <2>2. ~(k <= y - 3)
    <3>1. ASSUME k <= y - 3 PROVE FALSE
      <4>1. k + 1 \in Int /\ k + 1 <= y - 2
        BY <3>1, Types
      <4>2. E[k + 1] <= u
        BY <4>1, Past
      <4>3. E[k + 1] \in Int
        BY Types, <4>1
      <4> QED BY <4>2, <4>3, <2>1
    <3> QED BY <3>1
  <2>3. ~(k >= y + 2)
    <3>1. ASSUME k >= y + 2 PROVE FALSE
      <4>1. u < S[k]
        BY <3>1, Future
      <4>2. S[k] \in Int
        BY Types
      <4> QED BY <4>1, <4>2, <2>1
    <3> QED BY <3>1
  <2>4. k = y - 2 \/ k = y - 1 \/ k = y \/ k = y + 1
    <3>1. y \in Int
      BY Types
    <3> QED BY <2>2, <2>3, <3>1
  <2>5. (y - 2) + 1 = y - 1 /\ (y - 1) + 1 = y /\ (y + 1) + 1 = y + 2
    BY Types
  <2> QED BY <2>1, <2>4, <2>5
<1>2. ASSUME \/ (S[y - 2] <= u /\ u < E[y - 1]) \/ (S[y - 1] <= u /\ u < E[y]) \/ (S[y] <= u /\ u < E[y + 1]) \/ (S[y + 1] <= u /\ u < E[y + 2]) PROVE DstSouth(u)
  <2>1. y - 2 \in Int /\ y - 1 \in Int /\ y + 1 \in Int /\ y \in Int
    BY Types
  <2>2. (y - 2) + 1 = y - 1 /\ (y - 1) + 1 = y /\ (y + 1) + 1 = y + 2
    BY Types
  <2> QED BY <1>2, <2>1, <2>2 DEF DstSouth
<1> QED BY <1>1, <1>2

\* the six listed instants and their order
LEMMA SixN == ASSUME North PROVE /\ S[y - 1] \in Int /\ E[y - 1] \in Int /\ S[y] \in Int /\ E[y] \in Int /\ S[y + 1] \in Int /\ E[y + 1] \in Int
                                 /\ S[y - 1] <= E[y - 1] /\ E[y - 1] <= S[y] /\ S[y] <= E[y] /\ E[y] <= S[y + 1] /\ S[y + 1] <= E[y + 1]
<1>1. y - 1 \in Int /\ y + 1 \in Int /\ y \in Int /\ (y - 1) + 1 = y
  BY Types
<1> QED BY <1>1, Types DEF North

THEOREM NorthCorrect == ASSUME North
                        PROVE  /\ WalkStdN <=> (prev0 <= uS /\ ~DstNorth(uS))
                               /\ WalkDstN <=> (prev0 <= uD /\ DstNorth(uD))
<1>1. /\ S[y - 1] \in Int /\ E[y - 1] \in Int /\ S[y] \in Int /\ E[y] \in Int /\ S[y + 1] \in Int /\ E[y + 1] \in Int
      /\ S[y - 1] <= E[y - 1] /\ E[y - 1] <= S[y] /\ S[y] <= E[y] /\ E[y] <= S[y + 1] /\ S[y + 1] <= E[y + 1]
  BY SixN
<1>2. uS \in Int /\ uD \in Int /\ prev0 \in Int
  BY Types
<1>3. DstNorth(uS) <=> \/ (S[y - 1] <= uS /\ uS < E[y - 1]) \/ (S[y] <= uS /\ uS < E[y]) \/ (S[y + 1] <= uS /\ uS < E[y + 1])
  BY <1>2, Cand, NorthWindow
<1>4. DstNorth(uD) <=> \/ (S[y - 1] <= uD /\ uD < E[y - 1]) \/ (S[y] <= uD /\ uD < E[y]) \/ (S[y + 1] <= uD /\ uD < E[y + 1])
  BY <1>2, Cand, NorthWindow
<1>5. WalkStdN <=> (prev0 <= uS /\ ~(\/ (S[y - 1] <= uS /\ uS < E[y - 1]) \/ (S[y] <= uS /\ uS < E[y]) \/ (S[y + 1] <= uS /\ uS < E[y + 1])))
  BY <1>1, <1>2 DEF WalkStdN, First, In, Last, Lo
<1>6. WalkDstN <=> (prev0 <= uD /\ (\/ (S[y - 1] <= uD /\ uD < E[y - 1]) \/ (S[y] <= uD /\ uD < E[y]) \/ (S[y + 1] <= uD /\ uD < E[y + 1])))
  BY <1>1, <1>2 DEF WalkDstN, In, Lo
<1> QED BY <1>3, <1>4, <1>5, <1>6

THEOREM SouthCorrect == ASSUME South
                        PROVE  /\ WalkStdS <=> (prev0 <= uS /\ ~DstSouth(uS))
                               /\ WalkDstS <=> (prev0 <= uD /\ DstSouth(uD))
<1>0. y - 2 \in Int /\ y - 1 \in Int /\ y + 1 \in Int /\ y + 2 \in Int /\ y \in Int /\ (y - 2) + 1 = y - 1 /\ (y - 1) + 1 = y /\ (y + 1) + 1 = y + 2
  BY Types
<1>1. /\ S[y - 2] \in Int /\ E[y - 1] \in Int /\ S[y - 1] \in Int /\ E[y] \in Int /\ S[y] \in Int /\ E[y + 1] \in Int /\ S[y + 1] \in Int /\ E[y + 2] \in Int
      /\ S[y - 2] <= E[y - 1] /\ E[y - 1] <= S[y - 1] /\ S[y - 1] <= E[y] /\ E[y] <= S[y] /\ S[y] <= E[y + 1] /\ E[y + 1] <= S[y + 1] /\ S[y + 1] <= E[y + 2]
  BY <1>0, Types DEF South
<1>2. uS \in Int /\ uD \in Int /\ prev0 \in Int
  BY Types
\* year y - 2 started before every candidate, year y + 2 ends after every candidate
<1>3. S[y - 2] <= uS /\ S[y - 2] <= uD /\ uS < E[y + 2] /\ uD < E[y + 2]
  BY <1>0, <1>2, Cand, Past, Future
<1>4. DstSouth(uS) <=> \/ (S[y - 2] <= uS /\ uS < E[y - 1]) \/ (S[y - 1] <= uS /\ uS < E[y]) \/ (S[y] <= uS /\ uS < E[y + 1]) \/ (S[y + 1] <= uS /\ uS < E[y + 2])
  BY <1>2, Cand, SouthWindow
<1>5. DstSouth(uD) <=> \/ (S[y - 2] <= uD /\ uD < E[y - 1]) \/ (S[y - 1] <= uD /\ uD < E[y]) \/ (S[y] <= uD /\ uD < E[y + 1]) \/ (S[y + 1] <= uD /\ uD < E[y + 2])
  BY <1>2, Cand, SouthWindow
<1>6. WalkStdS <=> (prev0 <= uS /\ ~(\/ (S[y - 2] <= uS /\ uS < E[y - 1]) \/ (S[y - 1] <= uS /\ uS < E[y]) \/ (S[y] <= uS /\ uS < E[y + 1]) \/ (S[y + 1] <= uS /\ uS < E[y + 2])))
  BY <1>1, <1>2, <1>3 DEF WalkStdS, In, Lo
<1>7. WalkDstS <=> (prev0 <= uD /\ (\/ (S[y - 2] <= uD /\ uD < E[y - 1]) \/ (S[y - 1] <= uD /\ uD < E[y]) \/ (S[y] <= uD /\ uD < E[y + 1]) \/ (S[y + 1] <= uD /\ uD < E[y + 2])))
  BY <1>1, <1>2, <1>3 DEF WalkDstS, First, In, Last, Lo
<1> QED BY <1>4, <1>5, <1>6, <1>7
=============================================================================
