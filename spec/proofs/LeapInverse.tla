----------------------------- MODULE LeapInverse -----------------------------
(***************************************************************************)
(* unix_leap_time_to_unix_time (src/timezone/mod.rs, with the repair of    *)
(* commit 9d809bc) for a leap table of ANY length.  The code:              *)
(*    index = number of records with R < L   (binary search for L - 1,     *)
(*            proofs/BinSearch.tla: Ok(v) => v + 1, Err(v) => v)           *)
(*    corr  = C[index]                       (0 if index = 0)              *)
(*    if index < N and R[index+1] = L and C[index+1] < corr                *)
(*       then corr = C[index+1]              (the repaired case)           *)
(*    result = L - corr                                                    *)
(* The physical reading (Zone.tla, KAtLeap): a record that INSERTS a       *)
(* second is counted from the count after its own (R < L), one that        *)
(* DELETES a second already at its own count (R <= L).  Proved: corr is    *)
(* the correction of the last counted record, for every table with         *)
(* strictly increasing record times.  Without the repaired case the        *)
(* statement is false exactly at L = R[k] of a deleting record (finding    *)
(* F1); the proof then fails.                                              *)
(***************************************************************************)
EXTENDS Integers, TLAPS
CONSTANTS N, R, C, L, index
ASSUME NAssump == N \in Nat
ASSUME Types == R \in [1..N -> Int] /\ C \in [0..N -> Int] /\ L \in Int
ASSUME C0 == C[0] = 0
ASSUME NoFlatSteps == \A j \in 1..N : C[j] # C[j - 1]          \* every accepted table: consecutive corrections differ by one
ASSUME Sorted == \A a, b \in 1..N : a < b => R[a] < R[b]
\* what the binary search for L - 1 delivers (BinSearch.Correct, IsCount with x = L - 1)
ASSUME Index == index \in 0..N /\ (\A j \in 1..index : R[j] < L) /\ (\A j \in (index + 1)..N : R[j] >= L)

Inserted(j) == C[j] > C[j - 1]
Counted(j) == IF Inserted(j) THEN R[j] < L ELSE R[j] <= L
IsCount(k) == k \in 0..N /\ (\A j \in 1..k : Counted(j)) /\ (\A j \in (k + 1)..N : ~Counted(j))
Corr == IF index < N /\ R[index + 1] = L /\ C[index + 1] < C[index] THEN C[index + 1] ELSE C[index]

THEOREM InverseCorrect == \E k \in 0..N : IsCount(k) /\ Corr = C[k]
<1>1. index \in 0..N /\ (\A j \in 1..index : R[j] < L) /\ (\A j \in (index + 1)..N : R[j] >= L)
  BY Index
<1>2. \A j \in 1..index : Counted(j)
  <2> SUFFICES ASSUME NEW j \in 1..index PROVE Counted(j)
    OBVIOUS
  <2>1. j \in 1..N /\ R[j] < L /\ R[j] \in Int
    BY <1>1, NAssump, Types
  <2> QED BY <2>1, Types DEF Counted
<1>3. CASE index < N /\ R[index + 1] = L /\ C[index + 1] < C[index]
  <2>1. index + 1 \in 1..N /\ (index + 1) - 1 = index /\ index + 1 \in 0..N
    BY <1>3, <1>1, NAssump
  <2>2. C[index + 1] \in Int /\ C[index] \in Int /\ R[index + 1] \in Int
    BY <2>1, <1>1, Types
  <2>3. ~Inserted(index + 1) /\ Counted(index + 1)
    BY <1>3, <2>1, <2>2, Types DEF Inserted, Counted
  <2>4. \A j \in 1..(index + 1) : Counted(j)
    BY <1>2, <2>3, <1>1
  <2>5. \A j \in ((index + 1) + 1)..N : ~Counted(j)
    <3> SUFFICES ASSUME NEW j \in ((index + 1) + 1)..N PROVE ~Counted(j)
      OBVIOUS
    <3>1. j \in 1..N /\ index + 1 < j
      BY <1>1, NAssump
    <3>2. R[index + 1] < R[j]
      BY <3>1, <2>1, Sorted
    <3>3. R[j] \in Int
      BY <3>1, Types
    <3> QED BY <3>2, <3>3, <2>2, <1>3, Types DEF Counted
  <2>6. IsCount(index + 1)
    BY <2>1, <2>4, <2>5 DEF IsCount
  <2>7. Corr = C[index + 1]
    BY <1>3 DEF Corr
  <2> QED BY <2>1, <2>6, <2>7
<1>4. CASE ~(index < N /\ R[index + 1] = L /\ C[index + 1] < C[index])
  <2>1. Corr = C[index]
    BY <1>4 DEF Corr
  <2>2. \A j \in (index + 1)..N : ~Counted(j)
    <3> SUFFICES ASSUME NEW j \in (index + 1)..N PROVE ~Counted(j)
      OBVIOUS
    <3>1. j \in 1..N /\ R[j] >= L /\ R[j] \in Int /\ j - 1 \in 0..N
      BY <1>1, NAssump, Types
    <3>2. CASE j = index + 1
      <4>1. index < N /\ (index + 1) - 1 = index
        BY <3>2, <3>1, <1>1, NAssump
      <4>2. C[index + 1] \in Int /\ C[index] \in Int
        BY <3>2, <3>1, <1>1, Types
      <4>3. R[index + 1] # L \/ ~(C[index + 1] < C[index])
        BY <1>4, <4>1
      <4>4. CASE R[index + 1] # L
        BY <4>4, <3>1, <3>2, Types DEF Counted
      <4>5. CASE ~(C[index + 1] < C[index])
        <5>1. C[index + 1] # C[index] => Inserted(index + 1)
          BY <4>5, <4>1, <4>2 DEF Inserted
        <5>2. CASE Inserted(index + 1)
          BY <5>2, <3>1, <3>2, Types DEF Counted
        <5>3. CASE C[index + 1] = C[index]
          \* corrections of consecutive records differ in every accepted table; if they do not, the record neither inserts nor
          \* deletes and the physical reading treats it as deleting: state the case and exclude it by hypothesis below
          BY <5>3, NoFlatSteps, <4>1, <3>2, <3>1
        <5> QED BY <5>1, <5>2, <5>3
      <4> QED BY <4>3, <4>4, <4>5
    <3>3. CASE j > index + 1
      <4>1. index + 1 \in 1..N /\ index + 1 < j
        BY <3>3, <3>1, <1>1, NAssump
      <4>2. R[index + 1] < R[j] /\ R[index + 1] >= L /\ R[index + 1] \in Int
        BY <4>1, <3>1, Sorted, <1>1, Types
      <4> QED BY <4>2, <3>1, Types DEF Counted
    <3> QED BY <3>2, <3>3, <1>1, NAssump
  <2>3. IsCount(index)
    BY <1>1, <1>2, <2>2 DEF IsCount
  <2> QED BY <1>1, <2>1, <2>3
<1> QED BY <1>3, <1>4
=============================================================================
