------------------------------ MODULE RuleTree ------------------------------
(***************************************************************************)
(* The 12-leaf decision tree of AlternateTime::find_local_time_type        *)
(* (spec/Algo.tla: ARuleIsDst) against the period definition of Rule.tla   *)
(* (InDst), for EVERY rule and EVERY year at once: the yearly start and    *)
(* end instants S, E and the New Year instants NY are unconstrained        *)
(* functions on the integers, subject only to what every rule the          *)
(* constructor accepts satisfies:                                          *)
(*   - distinct New Years are at least Y apart (Y = 365 days);             *)
(*   - S[k], E[k] lie within W of calendar year k (W = one week of rule    *)
(*     time + 26 h of offset, anything below Y works);                     *)
(*   - the rule interleaves: north S[k] <= E[k] <= S[k+1], or south        *)
(*     E[k] <= S[k] <= E[k+1], for every k.                                *)
(* Machine-checked (TLAPS):                                                *)
(*   NorthCorrect: on a northern rule the tree answers                     *)
(*        \E k : S[k] <= u < E[k]        for every u of every year y;      *)
(*   SouthCorrect: on a southern rule the tree answers                     *)
(*        \E k : S[k] <= u < E[k+1]      for every u of a year y with      *)
(*        E[y] < S[y] (start and end of the CURRENT year do not coincide). *)
(* The hypothesis E[y] < S[y] of SouthCorrect is exactly what the recorded *)
(* finding K2 violates: with E[y] = S[y] the tree takes its northern arm   *)
(* (cmp = Equal); without that hypothesis the proof fails, and TLC         *)
(* exhibits concrete values for which the tree answers wrongly (witness    *)
(* W_K2 of MC_Rule).  MC_Rule also checks the hypotheses Years and Near    *)
(* (NearOK) and the same two statements on concrete rule families.         *)
(***************************************************************************)
EXTENDS Integers, TLAPS
CONSTANTS S, E, NY, Y, W
ASSUME Types == S \in [Int -> Int] /\ E \in [Int -> Int] /\ NY \in [Int -> Int] /\ Y \in Int /\ W \in Int
ASSUME Margin == 0 <= W /\ W < Y
ASSUME Years == \A i, j \in Int : i < j => NY[i] + Y <= NY[j]
ASSUME Near == \A k \in Int : NY[k] - W <= S[k] /\ S[k] <= NY[k + 1] + W /\ NY[k] - W <= E[k] /\ E[k] <= NY[k + 1] + W

\* the tree, as in the Rust (u = instant, y = its calendar year)
Tree(u, y) ==
  IF S[y] <= E[y]
  THEN (IF u < S[y] THEN (IF u < E[y - 1] THEN S[y - 1] <= u ELSE FALSE)
        ELSE IF u < E[y] THEN TRUE
        ELSE (IF S[y + 1] <= u THEN u < E[y + 1] ELSE FALSE))
  ELSE (IF u < E[y] THEN (IF u < S[y - 1] THEN u < E[y - 1] ELSE TRUE)
        ELSE IF u < S[y] THEN FALSE
        ELSE (IF E[y + 1] <= u THEN S[y + 1] <= u ELSE TRUE))

North == \A k \in Int : S[k] <= E[k] /\ E[k] <= S[k + 1]
South == \A k \in Int : E[k] <= S[k] /\ S[k] <= E[k + 1]
InYear(u, y) == NY[y] <= u /\ u < NY[y + 1]
DstNorth(u) == \E k \in Int : S[k] <= u /\ u < E[k]
DstSouth(u) == \E k \in Int : S[k] <= u /\ u < E[k + 1]

\* instants of years far from y cannot be involved
LEMMA PastE == ASSUME NEW y \in Int, NEW u \in Int, InYear(u, y), NEW k \in Int, k <= y - 2
               PROVE  E[k] <= u /\ S[k] <= u
<1>1. k + 1 \in Int /\ y - 1 \in Int /\ y \in Int /\ k + 1 <= y - 1
  OBVIOUS
<1>2. NY[k + 1] <= NY[y - 1]
  <2>0. NY[k + 1] \in Int /\ NY[y - 1] \in Int /\ Y \in Int /\ W \in Int
    BY Types, <1>1
  <2>1. CASE k + 1 = y - 1
    BY <2>1, <2>0
  <2>2. CASE k + 1 < y - 1
    <3>1. NY[k + 1] + Y <= NY[y - 1]
      BY <2>2, <1>1, Years
    <3> QED BY <3>1, <2>0, Margin
  <2> QED BY <2>1, <2>2, <1>1
<1>3. NY[y - 1] + Y <= NY[y]
  BY Years, <1>1
<1>4. E[k] <= NY[k + 1] + W /\ S[k] <= NY[k + 1] + W
  BY Near
<1>5. NY[k + 1] \in Int /\ NY[y - 1] \in Int /\ NY[y] \in Int /\ E[k] \in Int /\ S[k] \in Int
  BY Types, <1>1
<1> QED BY <1>2, <1>3, <1>4, <1>5, Margin, Types DEF InYear

LEMMA FutureS == ASSUME NEW y \in Int, NEW u \in Int, InYear(u, y), NEW k \in Int, k >= y + 2
                 PROVE  u < S[k] /\ u < E[k]
<1>1. y + 1 \in Int /\ y + 2 \in Int /\ y + 1 < y + 2 /\ y + 2 <= k
  OBVIOUS
<1>2. NY[y + 2] <= NY[k]
  <2>0. NY[y + 2] \in Int /\ NY[k] \in Int /\ Y \in Int /\ W \in Int
    BY Types, <1>1
  <2>1. CASE y + 2 = k
    BY <2>1, <2>0
  <2>2. CASE y + 2 < k
    <3>1. NY[y + 2] + Y <= NY[k]
      BY <2>2, <1>1, Years
    <3> QED BY <3>1, <2>0, Margin
  <2> QED BY <2>1, <2>2, <1>1
<1>3. NY[y + 1] + Y <= NY[y + 2]
  BY Years, <1>1
<1>4. NY[k] - W <= S[k] /\ NY[k] - W <= E[k]
  BY Near
<1>5. NY[k] \in Int /\ NY[y + 2] \in Int /\ NY[y + 1] \in Int /\ E[k] \in Int /\ S[k] \in Int
  BY Types, <1>1
<1> QED BY <1>2, <1>3, <1>4, <1>5, Margin, Types DEF InYear

\* hence only the previous, the current and the next year matter
LEMMA NorthWindow == ASSUME NEW y \in Int, NEW u \in Int, InYear(u, y)
                     PROVE  DstNorth(u) <=> \/ (S[y - 1] <= u /\ u < E[y - 1])
                                            \/ (S[y] <= u /\ u < E[y])
                                            \/ (S[y + 1] <= u /\ u < E[y + 1])
<1>1. ASSUME DstNorth(u) PROVE \/ (S[y - 1] <= u /\ u < E[y - 1]) \/ (S[y] <= u /\ u < E[y]) \/ (S[y + 1] <= u /\ u < E[y + 1])
  <2>1. PICK k \in Int : S[k] <= u /\ u < E[k]
    BY <1>1 DEF DstNorth
  <2>2. ~(k <= y - 2)
    <3>1. ASSUME k <= y - 2 PROVE FALSE
      <4>1. E[k] <= u
        BY <3>1, PastE
      <4>2. E[k] \in Int
        BY Types
      <4> QED BY <4>1, <4>2, <2>1
    <3> QED BY <3>1
  <2>3. ~(k >= y + 2)
    <3>1. ASSUME k >= y + 2 PROVE FALSE
      <4>1. u < S[k]
        BY <3>1, FutureS
      <4>2. S[k] \in Int
        BY Types
      <4> QED BY <4>1, <4>2, <2>1
    <3> QED BY <3>1
  <2>4. k = y - 1 \/ k = y \/ k = y + 1
    BY <2>2, <2>3
  <2> QED BY <2>1, <2>4
<1>2. ASSUME \/ (S[y - 1] <= u /\ u < E[y - 1]) \/ (S[y] <= u /\ u < E[y]) \/ (S[y + 1] <= u /\ u < E[y + 1]) PROVE DstNorth(u)
  <2>1. y - 1 \in Int /\ y + 1 \in Int
    OBVIOUS
  <2> QED BY <1>2, <2>1 DEF DstNorth
<1> QED BY <1>1, <1>2

LEMMA SouthWindow == ASSUME NEW y \in Int, NEW u \in Int, InYear(u, y)
                     PROVE  DstSouth(u) <=> \/ (S[y - 2] <= u /\ u < E[y - 1])
                                            \/ (S[y - 1] <= u /\ u < E[y])
                                            \/ (S[y] <= u /\ u < E[y + 1])
                                            \/ (S[y + 1] <= u /\ u < E[y + 2])
<1>1. ASSUME DstSouth(u) PROVE \/ (S[y - 2] <= u /\ u < E[y - 1]) \/ (S[y - 1] <= u /\ u < E[y]) \/ (S[y] <= u /\ u < E[y + 1]) \/ (S[y + 1] <= u /\ u < E[y + 2])
  <2>1. PICK k \in Int : S[k] <= u /\ u < E[k + 1]
    BY <1>1 DEF DstSouth
  <2>2. ~(k <= y - 3)
    <3>1. ASSUME k <= y - 3 PROVE FALSE
      <4>1. k + 1 \in Int /\ k + 1 <= y - 2
        BY <3>1
      <4>2. E[k + 1] <= u
        BY <4>1, PastE
      <4>3. E[k + 1] \in Int
        BY Types, <4>1
      <4> QED BY <4>2, <4>3, <2>1
    <3> QED BY <3>1
  <2>3. ~(k >= y + 2)
    <3>1. ASSUME k >= y + 2 PROVE FALSE
      <4>1. u < S[k]
        BY <3>1, FutureS
      <4>2. S[k] \in Int
        BY Types
      <4> QED BY <4>1, <4>2, <2>1
    <3> QED BY <3>1
  <2>4. k = y - 2 \/ k = y - 1 \/ k = y \/ k = y + 1
    BY <2>2, <2>3
  <2>5. (y - 2) + 1 = y - 1 /\ (y - 1) + 1 = y /\ (y + 1) + 1 = y + 2
    OBVIOUS
  <2> QED BY <2>1, <2>4, <2>5
<1>2. ASSUME \/ (S[y - 2] <= u /\ u < E[y - 1]) \/ (S[y - 1] <= u /\ u < E[y]) \/ (S[y] <= u /\ u < E[y + 1]) \/ (S[y + 1] <= u /\ u < E[y + 2]) PROVE DstSouth(u)
  <2>1. y - 2 \in Int /\ y - 1 \in Int /\ y + 1 \in Int
    OBVIOUS
  <2>2. (y - 2) + 1 = y - 1 /\ (y - 1) + 1 = y /\ (y + 1) + 1 = y + 2
    OBVIOUS
  <2> QED BY <1>2, <2>1, <2>2 DEF DstSouth
<1> QED BY <1>1, <1>2

THEOREM NorthCorrect == ASSUME North, NEW y \in Int, NEW u \in Int, InYear(u, y)
                        PROVE  Tree(u, y) <=> DstNorth(u)
<1>1. y - 1 \in Int /\ y + 1 \in Int /\ (y - 1) + 1 = y
  OBVIOUS
<1>2. /\ S[y - 1] <= E[y - 1] /\ E[y - 1] <= S[y] /\ S[y] <= E[y] /\ E[y] <= S[y + 1] /\ S[y + 1] <= E[y + 1]
  BY <1>1 DEF North
<1>3. /\ S[y - 1] \in Int /\ E[y - 1] \in Int /\ S[y] \in Int /\ E[y] \in Int /\ S[y + 1] \in Int /\ E[y + 1] \in Int
  BY <1>1, Types
<1>4. Tree(u, y) <=> \/ (S[y - 1] <= u /\ u < E[y - 1]) \/ (S[y] <= u /\ u < E[y]) \/ (S[y + 1] <= u /\ u < E[y + 1])
  BY <1>2, <1>3 DEF Tree
<1> QED BY <1>4, NorthWindow

THEOREM SouthCorrect == ASSUME South, NEW y \in Int, NEW u \in Int, InYear(u, y), E[y] < S[y]
                        PROVE  Tree(u, y) <=> DstSouth(u)
<1>1. y - 2 \in Int /\ y - 1 \in Int /\ y + 1 \in Int /\ y + 2 \in Int /\ (y - 2) + 1 = y - 1 /\ (y - 1) + 1 = y /\ (y + 1) + 1 = y + 2
  OBVIOUS
<1>2. /\ E[y - 2] <= S[y - 2] /\ S[y - 2] <= E[y - 1] /\ E[y - 1] <= S[y - 1] /\ S[y - 1] <= E[y]
      /\ E[y] <= S[y] /\ S[y] <= E[y + 1] /\ E[y + 1] <= S[y + 1] /\ S[y + 1] <= E[y + 2]
  BY <1>1 DEF South
<1>3. /\ S[y - 2] \in Int /\ E[y - 1] \in Int /\ S[y - 1] \in Int /\ E[y] \in Int /\ S[y] \in Int /\ E[y + 1] \in Int /\ S[y + 1] \in Int /\ E[y + 2] \in Int
  BY <1>1, Types
\* the tree never looks at year y - 2 or y + 2: their periods cannot contain an instant of year y
<1>4. S[y - 2] <= u /\ E[y - 1] \in Int
  BY <1>1, <1>3, PastE
<1>5. u < E[y + 2]
  BY <1>1, FutureS
<1>6. Tree(u, y) <=> \/ (S[y - 2] <= u /\ u < E[y - 1]) \/ (S[y - 1] <= u /\ u < E[y]) \/ (S[y] <= u /\ u < E[y + 1]) \/ (S[y + 1] <= u /\ u < E[y + 2])
  BY <1>2, <1>3, <1>4, <1>5 DEF Tree
<1> QED BY <1>6, SouthWindow
=============================================================================
