------------------------------ MODULE LeapScan ------------------------------
(***************************************************************************)
(* unix_time_to_unix_leap_time (src/timezone/mod.rs) for a leap table of   *)
(* ANY length: the forward scan of Algo.tla / AlgoSearch.tla               *)
(*      cur = u;  for each record i in order:                              *)
(*                  if cur < R[i] then stop;  cur = u + C[i]               *)
(* returns u + C[K], where K is the number of records the physical reading *)
(* of Zone.tla counts at UTC value u:                                      *)
(*      K = #{ i : R[i] <= u + C[i-1] }            (KAtUnix, C[0] = 0).    *)
(* Because that set is downward closed (lemma Mono: R[i] - C[i-1] strictly *)
(* increases, which needs only that records are at least 2 s apart and     *)
(* corrections move by one - every accepted table has 28 days - 1 s), K is *)
(* stated without counting: the k with records 1..k inside and k+1..N      *)
(* outside.  Machine-checked with TLAPS; TLC checks the same refinement    *)
(* for all tables of <= 2 records in AlgoSearch.tla and for the scaled     *)
(* zones of MC_Zone.                                                       *)
(***************************************************************************)
EXTENDS Integers, NaturalsInduction, TLAPS
CONSTANTS N, R, C, u
ASSUME NAssump == N \in Nat
ASSUME Types == R \in [1..N -> Int] /\ C \in [0..N -> Int] /\ u \in Int
ASSUME C0 == C[0] = 0
ASSUME Spacing == \A i \in 1..(N - 1) : R[i + 1] - R[i] >= 2
ASSUME Steps == \A i \in 1..N : C[i] - C[i - 1] = 1 \/ C[i] - C[i - 1] = -1

VARIABLES i, cur, pc
vars == <<i, cur, pc>>
Init == i = 1 /\ cur = u /\ pc = "Scan"
Scan == /\ pc = "Scan"
        /\ IF i <= N /\ ~(cur < R[i])
           THEN cur' = u + C[i] /\ i' = i + 1 /\ pc' = "Scan"
           ELSE pc' = "Done" /\ UNCHANGED <<i, cur>>
Next == Scan
Spec == Init /\ [][Next]_vars

\* record j is counted at UTC value u (Zone.KAtUnix)
Counted(j) == R[j] <= u + C[j - 1]
IsCount(k) == k \in 0..N /\ (\A j \in 1..k : Counted(j)) /\ (\A j \in (k + 1)..N : ~Counted(j))
Correct == pc = "Done" => \E k \in 0..N : IsCount(k) /\ cur = u + C[k]

F(j) == R[j] - C[j - 1]
LEMMA StepF == \A j \in 1..(N - 1) : F(j) < F(j + 1)
<1> SUFFICES ASSUME NEW j \in 1..(N - 1) PROVE F(j) < F(j + 1)
  OBVIOUS
<1>1. j \in 1..N /\ j + 1 \in 1..N /\ j - 1 \in 0..N /\ j \in 0..N /\ (j + 1) - 1 = j
  BY NAssump
<1>2. R[j] \in Int /\ R[j + 1] \in Int /\ C[j] \in Int /\ C[j - 1] \in Int
  BY <1>1, Types
<1>3. R[j + 1] - R[j] >= 2
  BY Spacing
<1>4. C[j] - C[j - 1] = 1 \/ C[j] - C[j - 1] = -1
  BY <1>1, Steps
<1> QED BY <1>1, <1>2, <1>3, <1>4 DEF F

LEMMA Mono == \A a, b \in 1..N : a < b => F(a) < F(b)
<1> DEFINE P(d) == \A a \in 1..N : (a + d + 1) \in 1..N => F(a) < F(a + d + 1)
<1>1. P(0)
  <2> SUFFICES ASSUME NEW a \in 1..N, (a + 0 + 1) \in 1..N PROVE F(a) < F(a + 0 + 1)
    OBVIOUS
  <2>1. a \in 1..(N - 1) /\ a + 0 + 1 = a + 1
    BY NAssump
  <2> QED BY <2>1, StepF
<1>2. \A d \in Nat : P(d) => P(d + 1)
  <2> SUFFICES ASSUME NEW d \in Nat, P(d), NEW a \in 1..N, (a + (d + 1) + 1) \in 1..N PROVE F(a) < F(a + (d + 1) + 1)
    OBVIOUS
  <2>1. (a + d + 1) \in 1..(N - 1) /\ (a + d + 1) \in 1..N /\ (a + d + 1) + 1 = a + (d + 1) + 1
    BY NAssump
  <2>2. F(a) < F(a + d + 1)
    BY <2>1
  <2>3. F(a + d + 1) < F((a + d + 1) + 1)
    BY <2>1, StepF
  <2>4. F(a) \in Int /\ F(a + d + 1) \in Int /\ F(a + (d + 1) + 1) \in Int
    <3>1. a - 1 \in 0..N /\ (a + d + 1) - 1 \in 0..N /\ (a + (d + 1) + 1) - 1 \in 0..N /\ (a + (d + 1) + 1) \in 1..N
      BY <2>1, NAssump
    <3> QED BY <3>1, <2>1, Types DEF F
  <2> QED BY <2>1, <2>2, <2>3, <2>4
<1>3. \A d \in Nat : P(d)
  BY <1>1, <1>2, NatInduction, Isa
<1> SUFFICES ASSUME NEW a \in 1..N, NEW b \in 1..N, a < b PROVE F(a) < F(b)
  OBVIOUS
<1>4. b - a - 1 \in Nat /\ a + (b - a - 1) + 1 = b
  BY NAssump
<1> QED BY <1>3, <1>4

Inv == /\ pc \in {"Scan", "Done"}
       /\ i \in 1..(N + 1)
       /\ cur = u + C[i - 1]
       /\ \A j \in 1..(i - 1) : Counted(j)
       /\ (pc = "Done" => (i <= N => cur < R[i]))

LEMMA InitInv == Init => Inv
  BY NAssump, C0, Types DEF Init, Inv

LEMMA NextInv == Inv /\ [Next]_vars => Inv'
<1> SUFFICES ASSUME Inv, [Next]_vars PROVE Inv'
  OBVIOUS
<1>1. CASE Scan
  <2>1. CASE i <= N /\ ~(cur < R[i])
    <3>1. cur' = u + C[i] /\ i' = i + 1 /\ pc' = "Scan"
      BY <1>1, <2>1 DEF Scan
    <3>2. i \in 1..N /\ i - 1 \in 0..N /\ i \in 0..N /\ (i + 1) - 1 = i
      BY <2>1, NAssump DEF Inv
    <3>3. R[i] \in Int /\ C[i - 1] \in Int /\ cur \in Int
      BY <3>2, Types DEF Inv
    <3>4. Counted(i)
      BY <2>1, <3>3, Types DEF Inv, Counted
    <3>5. \A j \in 1..((i + 1) - 1) : Counted(j)
      BY <3>4, <3>2 DEF Inv
    <3> QED BY <3>1, <3>2, <3>5, NAssump DEF Inv
  <2>2. CASE ~(i <= N /\ ~(cur < R[i]))
    <3>1. pc' = "Done" /\ i' = i /\ cur' = cur
      BY <1>1, <2>2 DEF Scan
    <3> QED BY <3>1, <2>2 DEF Inv
  <2> QED BY <2>1, <2>2
<1>2. CASE UNCHANGED vars
  BY <1>2 DEF Inv, vars
<1> QED BY <1>1, <1>2 DEF Next

LEMMA InvCorrect == Inv => Correct
<1> SUFFICES ASSUME Inv, pc = "Done" PROVE \E k \in 0..N : IsCount(k) /\ cur = u + C[k]
  BY DEF Correct
<1>1. i - 1 \in 0..N /\ cur = u + C[i - 1] /\ \A j \in 1..(i - 1) : Counted(j)
  BY NAssump DEF Inv
<1>2. \A j \in ((i - 1) + 1)..N : ~Counted(j)
  <2> SUFFICES ASSUME NEW j \in ((i - 1) + 1)..N PROVE ~Counted(j)
    OBVIOUS
  <2>1. i \in 1..N /\ j \in 1..N /\ i <= j /\ cur < R[i]
    BY NAssump DEF Inv
  <2>2. R[i] \in Int /\ C[i - 1] \in Int /\ R[j] \in Int /\ C[j - 1] \in Int
    <3>1. i - 1 \in 0..N /\ j - 1 \in 0..N
      BY <2>1, NAssump
    <3> QED BY <2>1, <3>1, Types
  <2>3. F(i) <= F(j)
    <3>1. CASE i = j
      BY <3>1, <2>2 DEF F
    <3>2. CASE i < j
      BY <3>2, <2>1, <2>2, Mono DEF F
    <3> QED BY <3>1, <3>2, <2>1
  <2>4. u < F(i)
    BY <2>1, <2>2, <1>1, Types DEF F
  <2> QED BY <2>2, <2>3, <2>4, Types DEF F, Counted
<1>3. IsCount(i - 1)
  BY <1>1, <1>2 DEF IsCount
<1> QED BY <1>1, <1>3

THEOREM Safety == Spec => []Correct
<1>1. Spec => []Inv
  BY InitInv, NextInv, PTL DEF Spec
<1> QED BY <1>1, InvCorrect, PTL
=============================================================================
