------------------------------- MODULE Wide -------------------------------
(***************************************************************************)
(* Arbitrary-precision integers for TLC (whose Int is a 32-bit Java int).  *)
(* A wide integer is a tuple <<sign, l1, l2, ...>>:                        *)
(*   sign = 0 for values >= 0, 1 for values < 0;                           *)
(*   l1, l2, ... = magnitude in base 1000, least significant limb first,   *)
(*   no most-significant zero limb.  Zero is <<0>>.                        *)
(* This is also the wire format of i64 / i128 / u32 quantities in traces   *)
(* and vectors, so the Rust harness does no arithmetic on them at all.     *)
(***************************************************************************)
EXTENDS Integers, Sequences

WB == 1000

WMax2(a, b) == IF a >= b THEN a ELSE b
MGet(m, i) == IF i <= Len(m) THEN m[i] ELSE 0

RECURSIVE MStrip(_)
MStrip(m) == IF m = <<>> THEN <<>>
             ELSE IF m[Len(m)] = 0 THEN MStrip(SubSeq(m, 1, Len(m) - 1)) ELSE m

\* -1, 0, 1
MCmp(a, b) ==
  IF Len(a) # Len(b) THEN (IF Len(a) < Len(b) THEN -1 ELSE 1)
  ELSE LET D == {i \in 1..Len(a) : a[i] # b[i]} IN
       IF D = {} THEN 0
       ELSE LET k == CHOOSE i \in D : \A j \in D : j <= i IN IF a[k] < b[k] THEN -1 ELSE 1

RECURSIVE MAddC(_, _, _, _, _)
MAddC(a, b, i, c, acc) ==
  IF i > WMax2(Len(a), Len(b)) THEN (IF c = 0 THEN acc ELSE Append(acc, c))
  ELSE LET s == MGet(a, i) + MGet(b, i) + c IN MAddC(a, b, i + 1, s \div WB, Append(acc, s % WB))
MAdd(a, b) == MAddC(a, b, 1, 0, <<>>)

\* requires a >= b
RECURSIVE MSubC(_, _, _, _, _)
MSubC(a, b, i, c, acc) ==
  IF i > Len(a) THEN MStrip(acc)
  ELSE LET s == a[i] - MGet(b, i) - c IN
       IF s < 0 THEN MSubC(a, b, i + 1, 1, Append(acc, s + WB)) ELSE MSubC(a, b, i + 1, 0, Append(acc, s))
MSub(a, b) == MSubC(a, b, 1, 0, <<>>)

\* k in 0..2000000
RECURSIVE MMulC(_, _, _, _, _)
MMulC(a, k, i, c, acc) ==
  IF i > Len(a) THEN (IF c = 0 THEN acc ELSE IF c < WB THEN Append(acc, c)
                      ELSE MMulC(<<>>, k, 1, 0, acc) \o MStrip(<<c % WB, (c \div WB) % WB, c \div (WB * WB)>>))
  ELSE LET s == a[i] * k + c IN MMulC(a, k, i + 1, s \div WB, Append(acc, s % WB))
MMulSmall(a, k) == IF k = 0 THEN <<>> ELSE MMulC(a, k, 1, 0, <<>>)

\* k in 1..2147483 ; result <<quotient magnitude, remainder>>
RECURSIVE MDivC(_, _, _, _, _)
MDivC(a, k, i, r, acc) ==
  IF i = 0 THEN <<MStrip(acc), r>>
  ELSE LET x == r * WB + a[i] IN MDivC(a, k, i - 1, x % k, <<x \div k>> \o acc)
MDivSmall(a, k) == MDivC(a, k, Len(a), 0, <<>>)

---------------------------------------------------------------------------
WZero == <<0>>
WSgn(x) == x[1]
WMag(x) == Tail(x)
WMk(s, m) == IF m = <<>> THEN WZero ELSE <<s>> \o m
IsWide(x) == /\ Len(x) >= 1 /\ x[1] \in {0, 1}
             /\ \A i \in 2..Len(x) : x[i] \in 0..(WB - 1)
             /\ (Len(x) > 1 => x[Len(x)] # 0)
             /\ (Len(x) = 1 => x[1] = 0)

WNeg(x) == IF x = WZero THEN x ELSE <<1 - x[1]>> \o Tail(x)
WAbs(x) == IF x = WZero THEN x ELSE <<0>> \o Tail(x)
WAdd(x, y) ==
  IF x[1] = y[1] THEN WMk(x[1], MAdd(Tail(x), Tail(y)))
  ELSE LET c == MCmp(Tail(x), Tail(y)) IN
       IF c = 0 THEN WZero
       ELSE IF c > 0 THEN WMk(x[1], MSub(Tail(x), Tail(y)))
       ELSE WMk(y[1], MSub(Tail(y), Tail(x)))
WSub(x, y) == WAdd(x, WNeg(y))
WCmp(x, y) ==
  IF x[1] # y[1] THEN (IF x[1] = 1 THEN -1 ELSE 1)
  ELSE IF x[1] = 0 THEN MCmp(Tail(x), Tail(y)) ELSE MCmp(Tail(y), Tail(x))
WLt(x, y) == WCmp(x, y) < 0
WLe(x, y) == WCmp(x, y) <= 0
WEq(x, y) == x = y

\* small non-negative magnitude of an Int in 0..2147483647
MOfNat(n) == MStrip(<<n % WB, (n \div WB) % WB, (n \div (WB * WB)) % WB, n \div (WB * WB * WB)>>)
WInt(i) == IF i >= 0 THEN WMk(0, MOfNat(i))
           ELSE IF i = -2147483647 - 1 THEN <<1, 648, 483, 147, 2>>
           ELSE WMk(1, MOfNat(-i))
WMulSmall(x, k) == WMk(x[1], MMulSmall(Tail(x), k))     \* k >= 0
\* floor division and modulus by a small positive k: x = q*k + r, 0 <= r < k
WDivMod(x, k) ==
  LET qr == MDivSmall(Tail(x), k) IN
  IF x[1] = 0 THEN [q |-> WMk(0, qr[1]), r |-> qr[2]]
  ELSE IF qr[2] = 0 THEN [q |-> WMk(1, qr[1]), r |-> 0]
  ELSE [q |-> WMk(1, MAdd(qr[1], <<1>>)), r |-> k - qr[2]]
WAddInt(x, i) == WAdd(x, WInt(i))

WMinI32 == <<1, 648, 483, 147, 2>>
WMaxI32 == <<0, 647, 483, 147, 2>>
WMinI64 == <<1, 808, 775, 854, 36, 372, 223, 9>>
WMaxI64 == <<0, 807, 775, 854, 36, 372, 223, 9>>
WMaxU32 == <<0, 295, 967, 294, 4>>
WFitsI32(x) == WLe(WMinI32, x) /\ WLe(x, WMaxI32)
WFitsI64(x) == WLe(WMinI64, x) /\ WLe(x, WMaxI64)
RECURSIVE MHornerP(_, _, _)
MHornerP(m, i, acc) == IF i = 0 THEN acc ELSE MHornerP(m, i - 1, acc * WB + m[i])
RECURSIVE MHornerN(_, _, _)
MHornerN(m, i, acc) == IF i = 0 THEN acc ELSE MHornerN(m, i - 1, acc * WB - m[i])
\* only for WFitsI32(x)
WToInt(x) == IF x[1] = 0 THEN MHornerP(Tail(x), Len(x) - 1, 0) ELSE MHornerN(Tail(x), Len(x) - 1, 0)

\* multiply / floor-divide by 10^9 = three limbs
WShl3(x) == IF x = WZero THEN x ELSE <<x[1], 0, 0, 0>> \o Tail(x)
\* x = q * 10^9 + r with 0 <= r < 10^9 ; r returned as Int
WDivMod1e9(x) ==
  LET m == Tail(x)
      lo == MStrip(SubSeq(m, 1, IF Len(m) < 3 THEN Len(m) ELSE 3))
      hi == IF Len(m) <= 3 THEN <<>> ELSE SubSeq(m, 4, Len(m))
      lov == MHornerP(lo, Len(lo), 0)
  IN IF x[1] = 0 THEN [q |-> WMk(0, hi), r |-> lov]
     ELSE IF lov = 0 THEN [q |-> WMk(1, hi), r |-> 0]
     ELSE [q |-> WMk(1, MAdd(hi, <<1>>)), r |-> 1000000000 - lov]
=============================================================================
