------------------------------ MODULE MC_Cons ------------------------------
(***************************************************************************)
(* C11: the constructor accepts exactly the rules whose start/end order    *)
(* never flips.  One state per ordered pair of day notations.  Acceptance  *)
(* depends on times and offsets only through                               *)
(*      d = (start_time - std_offset) - (end_time - dst_offset),           *)
(* and on the pair through six integers (min / max over the 400-year cycle *)
(* of the three day differences).  TLC derives them from the definition,   *)
(* checks the derived decision against the statement's literal year-by-    *)
(* year definition on concrete rules, and emits constructor vectors at     *)
(* every decision breakpoint k*86400 + {-1, 0, 1}.                         *)
(***************************************************************************)
EXTENDS Find, TLC, Json
CONSTANTS Pairs, EmitVec, Literal, CheckAgree       \* Pairs: set of encoded ordered pairs start_id * 2000 + end_id
VARIABLES vPh, vS, vE
vars == <<vPh, vS, vE>>
NdOf(id) == IF id <= 365 THEN <<"J", id>>
            ELSE IF id <= 731 THEN <<"Z", id - 366>>
            ELSE LET i == id - 732 IN <<"M", (i \div 35) + 1, ((i % 35) \div 7) + 1, i % 7>>
StartsOf == {p \div 2000 : p \in Pairs}
Init == vPh = 0 /\ vS \in StartsOf /\ vE = 0
Next == vPh = 0 /\ vPh' = 1 /\ vS' = vS /\ vE' \in {p % 2000 : p \in {q \in Pairs : q \div 2000 = vS}}
Spec == Init /\ [][Next]_vars

SetMin(S) == CHOOSE x \in S : \A z \in S : x <= z
SetMax(S) == CHOOSE x \in S : \A z \in S : z <= x
Summary ==
  LET ds == [yy \in CycleYears |-> RuleDoy(NdOf(vS), yy)]
      de == [yy \in CycleYears |-> RuleDoy(NdOf(vE), yy)]
      A == {ds[yy] - de[yy] : yy \in CycleYears}
      B == {DBYTab[yy] + de[yy] - DBYTab[yy + 1] - ds[(yy + 1) % 400] : yy \in CycleYears}
      CC == {DBYTab[yy] + ds[yy] - DBYTab[yy + 1] - de[(yy + 1) % 400] : yy \in CycleYears}
  IN [minA |-> SetMin(A), maxA |-> SetMax(A), minB |-> SetMin(B), maxB |-> SetMax(B), minC |-> SetMin(CC), maxC |-> SetMax(CC)]
ConsistentD(sm, dd) ==
  /\ (sm.minA * 86400 + dd >= 0 \/ sm.maxA * 86400 + dd <= 0)
  /\ (sm.minB * 86400 - dd >= 0 \/ sm.maxB * 86400 - dd <= 0)
  /\ (sm.minC * 86400 + dd >= 0 \/ sm.maxC * 86400 + dd <= 0)
DMax == 1393200           \* 16 d 3 h: |d| is always smaller
Breakpoints(sm) == {-sm.minA * 86400, -sm.maxA * 86400, sm.minB * 86400, sm.maxB * 86400, -sm.minC * 86400, -sm.maxC * 86400}
TestDs(sm) == {dd \in {b + e : b \in Breakpoints(sm), e \in {-1, 0, 1}} \cup {0, 7200, -7200, 90000, -90000} : -DMax < dd /\ dd < DMax}
Ty(off, dst) == [off |-> off, dst |-> dst, des |-> IF dst = 0 THEN <<83, 84, 68>> ELSE <<68, 83, 84>>]
\* rules realising difference dd: <<std offset, dst offset, end time>> from the menu, start time solved for
SplitSeq == <<<<0, 0, 0>>, <<0, 3600, 7200>>, <<-89999, 93599, 0>>, <<93599, -89999, 604799>>, <<3600, 0, -604799>>, <<-18000, -14400, 90000>>,
              <<-89999, 93599, -604799>>, <<0, 0, 604799>>>>
\* half of the splits per d (rotating with d) among those whose start time stays inside the window; beyond one week, where
\* only the extreme splits can realise d at all, every feasible one
RulesFor(dd) == {[k |-> "alt", std |-> Ty(sp[1], 0), dst |-> Ty(sp[2], 1), sd |-> NdOf(vS), st |-> dd + sp[1] + sp[3] - sp[2], ed |-> NdOf(vE), et |-> sp[3]] :
                    sp \in {SplitSeq[i] : i \in {j \in 1..8 : ((j + dd) % 2 = 0 \/ dd > 604800 \/ dd < -604800)
                                                              /\ TimeOK(dd + SplitSeq[j][1] + SplitSeq[j][3] - SplitSeq[j][2])}}}
\* ... and rules whose START time is a round value (0 h, 2 h) with the end time solved for: a shortcut keyed on the start time itself
\* (permanent daylight time "starts on the first day at 00:00") is only reached this way
AnchorSeq == <<<<0, 0, 0>>, <<0, 3600, 0>>, <<-18000, -14400, 0>>, <<0, 3600, 7200>>, <<-18000, -14400, 7200>>, <<3600, 0, 0>>>>     \* <<std, dst, start time>>
RulesAnchored(dd) == {[k |-> "alt", std |-> Ty(sp[1], 0), dst |-> Ty(sp[2], 1), sd |-> NdOf(vS), st |-> sp[3], ed |-> NdOf(vE), et |-> sp[3] - sp[1] + sp[2] - dd] :
                    sp \in {AnchorSeq[i] : i \in {j \in 1..6 : (j + dd) % 2 = 0 /\ TimeOK(AnchorSeq[j][3] - AnchorSeq[j][1] + AnchorSeq[j][2] - dd)}}}
RulesAll(dd) == RulesFor(dd) \cup RulesAnchored(dd)
\* derived decision = summary-based decision of Rule.tla = (on demand) the literal 400-year definition
Agree == (vPh = 1 /\ CheckAgree) => LET sm == Summary IN \A dd \in TestDs(sm) : \A rr \in RulesAll(dd) :
           /\ DD(rr) = dd
           /\ RuleSummary(rr).consistent = ConsistentD(sm, dd)
           /\ (Literal => Consistent(rr) = ConsistentD(sm, dd))
Emit == (EmitVec /\ vPh = 1) => LET sm == Summary IN \A dd \in TestDs(sm) : \A rr \in RulesAll(dd) :
           PrintT(<<"VEC", ToJson([op |-> "rule", a |-> [std |-> rr.std, dst |-> rr.dst, sd |-> rr.sd, st |-> rr.st, ed |-> rr.ed, et |-> rr.et],
                                   x |-> {IF ConsistentD(sm, dd) THEN [ok |-> 1] ELSE [err |-> "TransitionRule.InconsistentRule"]}])>>)
Inv == Agree /\ Emit
=============================================================================
