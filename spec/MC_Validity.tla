---------------------------- MODULE MC_Validity ----------------------------
(***************************************************************************)
(* C13: all small (transitions, types, leap seconds, rule) tuples, valid   *)
(* ones and every kind of defect.  Checks that the verdict is well formed  *)
(* (a well-formed zone has the empty error set; a single defect yields a   *)
(* single error kind; every index a later lookup uses is in range) and     *)
(* emits each tuple as a zone-construction vector.                         *)
(***************************************************************************)
EXTENDS Find, TLC, Json
CONSTANTS EmitVec
VARIABLES vPh, vZa, vty, vlp
vars == <<vPh, vZa, vty, vlp>>
G(s) == CNorm(4, DBYTab[370], s)
Ty(off, dst, ch) == [off |-> off, dst |-> dst, des |-> <<ch, ch, ch>>]
TypeLists == { <<>>, <<Ty(0, 0, 65)>>, <<Ty(0, 0, 65), Ty(3600, 1, 66)>> }
Times == {0, 1, 2}
TrLists == {<<>>} \cup {<<<<t, i>>>> : t \in Times, i \in 0..2} \cup {<<<<t1, i1>>, <<t2, i2>>>> : t1 \in Times, t2 \in Times, i1 \in 0..2, i2 \in 0..2}
LeapTimes == {-1, 0, 5}
LeapLists == {<<>>} \cup {<<<<r, c>>>> : r \in LeapTimes, c \in {-1, 0, 1, 2}}
             \cup {<<<<5, c1>>, <<5 + d, c2>>>> : c1 \in {1, -1}, d \in {2419198, 2419199, 2419200}, c2 \in {-2, -1, 0, 1, 2}}
RuleOf(tys, trs) ==
  {[k |-> "none"]} \cup
  (IF tys = <<>> THEN {} ELSE
   LET base == IF trs # <<>> /\ trs[Len(trs)][2] < Len(tys) THEN tys[trs[Len(trs)][2] + 1] ELSE tys[1] IN
   {[k |-> "fixed", t |-> base],
    [k |-> "fixed", t |-> [base EXCEPT !.off = @ + 1]],
    [k |-> "fixed", t |-> [base EXCEPT !.dst = 1 - @]],
    [k |-> "fixed", t |-> [base EXCEPT !.des = <<88, 89, 90>>]],
    [k |-> "fixed", t |-> [base EXCEPT !.des = <<base.des[1], base.des[2], 90>>]],          \* differs in the last character only
    [k |-> "fixed", t |-> [base EXCEPT !.des = <<90, base.des[2], base.des[3]>>]],
    [k |-> "fixed", t |-> [base EXCEPT !.des = <<>>]]})
Init == vPh = 0 /\ vZa = <<>> /\ vty \in TypeLists /\ vlp \in LeapLists
Next == /\ vPh = 0 /\ vPh' = 1 /\ UNCHANGED <<vty, vlp>>
        /\ \E trs \in TrLists :
             \E rule \in RuleOf(vty, trs) :
               vZa' = [tr |-> [i \in 1..Len(trs) |-> <<CDSToW(G(trs[i][1])), trs[i][2]>>], ty |-> vty,
                      lp |-> [i \in 1..Len(vlp) |-> <<CDSToW(G(vlp[i][1])), vlp[i][2]>>], rule |-> rule, via |-> "owned"]
Spec == Init /\ [][Next]_vars
Z == MkZone(vZa)
V == ZoneVerdict(Z)
WellFormed == vPh = 1 =>
  /\ (V = {} => /\ Len(Z.ty) > 0
               /\ \A i \in 1..NTr(Z) : Z.tr[i].ix < Len(Z.ty)
               /\ \A u \in {G(-1), G(0), G(1), G(2), G(3)} : LET o == Lookup(Z, u) IN o.ok # {} \/ o.err = {"NoAvailableLocalTimeType"})
  /\ "ok-or" \notin V                                    \* nothing is left open in the small model
  /\ (Cardinality(ZoneErrs14(Z)) = 1 /\ ~(Z.rule.k # "none" /\ NTr(Z) > 0) => Cardinality(V) = 1)
Emit == (EmitVec /\ vPh = 1) => PrintT(<<"VEC", ToJson([op |-> "zone", a |-> vZa, g |-> 1])>>)
Inv == WellFormed /\ Emit
=============================================================================
