------------------------------ MODULE MC_TzRs ------------------------------
(* Bounded exploration of client sessions of TzRs.tla (all interleavings of API calls over small argument menus). *)
EXTENDS TzRs
G(s) == CNorm(4, DBYTab[370], s)
Wt(s) == CDSToW(G(s))
Ty(off, dst, c) == [off |-> off, dst |-> dst, des |-> <<c, c, c>>]
ZonesC == { [tr |-> <<>>, ty |-> <<Ty(0, 0, 65)>>, lp |-> <<>>, rule |-> [k |-> "none"]],
            [tr |-> <<<<Wt(2), 1>>, <<Wt(5), 0>>>>, ty |-> <<Ty(0, 0, 65), Ty(2, 1, 66)>>, lp |-> <<>>, rule |-> [k |-> "fixed", t |-> Ty(0, 0, 65)]],
            [tr |-> <<<<Wt(3), 1>>>>, ty |-> <<Ty(1, 0, 65), Ty(-2, 0, 66)>>, lp |-> <<<<Wt(3), -1>>>>, rule |-> [k |-> "none"]],
            [tr |-> <<<<Wt(3), 1>>>>, ty |-> <<Ty(1, 0, 65), Ty(-2, 0, 66)>>, lp |-> <<<<Wt(2), 1>>>>, rule |-> [k |-> "fixed", t |-> Ty(-2, 0, 66)]],
            [tr |-> <<<<Wt(3), 2>>>>, ty |-> <<Ty(1, 0, 65)>>, lp |-> <<>>, rule |-> [k |-> "none"]],                                  \* index out of range
            [tr |-> <<<<Wt(3), 0>>, <<Wt(3), 0>>>>, ty |-> <<Ty(1, 0, 65)>>, lp |-> <<>>, rule |-> [k |-> "none"]],                    \* times not increasing
            [tr |-> <<<<Wt(3), 0>>>>, ty |-> <<Ty(1, 0, 65)>>, lp |-> <<>>, rule |-> [k |-> "fixed", t |-> Ty(1, 1, 65)]] }           \* rule disagrees
InstantsC == {Wt(s) : s \in {-1, 1, 2, 3, 4, 6}}
FieldsOf(s) == LET cv == Civil(G(s)) IN [y |-> YInt(cv.c, cv.yic), mo |-> cv.mo, d |-> cv.d, h |-> cv.h, mi |-> cv.mi, s |-> cv.s]
LocalTimesC == {FieldsOf(s) : s \in {0, 2, 3, 4, 5, 7}}
ValidFile == Encode(0, <<>>, <<>>, [tr |-> <<<<2, 0>>>>, ty |-> <<[off |-> 3, dst |-> 0]>>, lp |-> <<>>],
                    [tab |-> <<67, 69, 84, 0>>, idx |-> <<0>>, isstd |-> <<>>, isut |-> <<>>, footer |-> <<>>])
FilesC == {ValidFile, SubSeq(ValidFile, 1, Len(ValidFile) - 1), <<84, 90>>}
RulesC == { [std |-> Ty(0, 0, 65), dst |-> Ty(3600, 1, 66), sd |-> <<"M", 3, 2, 0>>, st |-> 7200, ed |-> <<"M", 11, 1, 0>>, et |-> 7200],
            [std |-> Ty(0, 0, 65), dst |-> Ty(3600, 1, 66), sd |-> <<"J", 59>>, st |-> 0, ed |-> <<"J", 60>>, et |-> -84600],      \* order flips between years: refused
            [std |-> Ty(-90000, 0, 65), dst |-> Ty(3600, 1, 66), sd |-> <<"J", 1>>, st |-> 0, ed |-> <<"J", 200>>, et |-> 0] }     \* offset outside the window
TzStringsC == { <<85, 84, 67, 48>>, <<69, 83, 84, 53, 69, 68, 84, 44, 77, 51, 46, 50, 46, 48, 44, 77, 49, 49, 46, 49, 46, 48>>,
                <<69, 83, 84, 53, 69, 68, 84, 44, 77, 51, 46, 50, 46, 48, 47, 45, 49, 44, 77, 49, 49, 46, 49, 46, 48>>, <<69, 83, 84>> }   \* ".../-1,..." needs extensions
NanosC == { WShl3(Wt(2)), WAddInt(WShl3(Wt(3)), -1), WAddInt(WShl3(Wt(-1)), 500000000) }
TzValuesC == {<<>>, <<65>>, <<58, 65>>, <<85, 84, 67, 48>>, LocaltimeName}
DirsC == <<<<47, 122>>, <<47, 119>>>>
VfsC == <<<<<<47, 119, 47, 65>>, ValidFile>>, <<<<47, 122, 47, 65>>, Unreadable>>>>
\* reachability witnesses (each is expected to be VIOLATED: bin/check selftest runs them to show the properties are not vacuous)
W_Fold == ~(last.op = "find" /\ Len(last.list) >= 2)
W_Gap == ~(last.op = "find" /\ \E i \in 1..Len(last.list) : last.list[i][1] = "S")
W_BufStale == ~(last.op = "findn" /\ \E i \in 1..4 : buf[i] # <<>> /\ i > Len(last.data))
W_Reads2 == ~(last.op = "resolve" /\ Len(reads) = 2 /\ last.kind = "zone")
W_Project == ~(last.op = "project" /\ "ok" \in DOMAIN last.r /\ last.r.ok.off # last.a.off)
W_Refused == ~(last.op = "zone" /\ ~last.accepted)
=============================================================================
