SPECIFICATION Spec
INVARIANT Invariants
PROPERTY FrameOK
PROPERTY BufFrame
CONSTANTS
  Zones <- ZonesC
  Instants <- InstantsC
  LocalTimes <- LocalTimesC
  Files <- FilesC
  TzValues <- TzValuesC
  Dirs <- DirsC
  Vfs <- VfsC
  MaxSteps = 3
CHECK_DEADLOCK FALSE
