SPECIFICATION Spec
INVARIANT Invariants
PROPERTY FrameOK
PROPERTY BufFrame
CONSTANTS
  Zones <- ZonesC
  Instants <- InstantsC
  LocalTimes <- LocalTimesC
  Files <- FilesC
  TzValues <- TzValuesC
  Rules <- RulesC
  TzStrings <- TzStringsC
  Nanos <- NanosC
  Dirs <- DirsC
  Vfs <- VfsC
  MaxSteps = 3
CHECK_DEADLOCK FALSE
