------------------------------ MODULE AlgoCal ------------------------------
(***************************************************************************)
(* The algorithm layer of the calendar: HOW tz-rs computes what Cal.tla    *)
(* defines, transcribed operator by operator from src/datetime/mod.rs and  *)
(* kept in its shape (truncating `/` and `%` of Rust, the fix-up of        *)
(* negative remainders, the division cascade of UtcDateTime::from_timespec *)
(* counted from 2000-03-01 with its three clamps, the month loop over the  *)
(* table that starts in March, the month wrap; the two branches of         *)
(* days_since_unix_epoch; week_day, year_day, unix_time).                  *)
(*                                                                         *)
(* MC_Calendar checks on every day of the 400-year cycle that each of      *)
(* these equals the axiomatic calendar (refinement), and that the cascade  *)
(* WITHOUT its clamps does not (witness: the theorem is not vacuous).      *)
(* Apa_Calendar extends the two year formulas to every integer year.       *)
(***************************************************************************)
EXTENDS Cal

\* Rust's `/` and `%` on signed integers truncate toward zero (positive divisor)
TDiv(a, b) == IF a >= 0 THEN a \div b ELSE -((-a) \div b)
TRem(a, b) == a - b * TDiv(a, b)
AMin(a, b) == IF a <= b THEN a ELSE b

\* `let mut q = a / b; let mut r = a % b; if r < 0 { r += b; q -= 1 }` - used twice in from_timespec
AFloorSplit(a, b) == LET q == TDiv(a, b) r == TRem(a, b) IN IF r < 0 THEN <<q - 1, r + b>> ELSE <<q, r>>

DaysPer400 == 146097
DaysPer100 == 36524
DaysPer4 == 1461
DaysPerNormal == 365
FromMarch == <<31, 30, 31, 30, 31, 31, 30, 31, 30, 31, 31, 29>>       \* DAY_IN_MONTHS_LEAP_YEAR_FROM_MARCH
CumulNormal == <<0, 31, 59, 90, 120, 151, 181, 212, 243, 273, 304, 334>>   \* CUMUL_DAYS_IN_MONTHS_NORMAL_YEAR

\* the month loop: `while month < 12 { if remaining_days < days[month] { break } remaining_days -= days[month]; month += 1 }`
\* as the loop's fixpoint: the first index whose month the day falls in (12 if it falls in none)
RECURSIVE AMonthLoop(_, _)
AMonthLoop(month, rd) == IF month < 12 /\ rd >= FromMarch[month + 1] THEN AMonthLoop(month + 1, rd - FromMarch[month + 1]) ELSE <<month, rd>>

\* UtcDateTime::from_timespec after the seconds have been split off: rd = days since 2000-03-01 within the 400-year cycle.
\* clamp = TRUE is the code; clamp = FALSE drops the three `min(.., k)` (the witness)
ACascade(rd0, clamp) ==
  LET c100 == IF clamp THEN AMin(rd0 \div DaysPer100, 3) ELSE rd0 \div DaysPer100
      rd1 == rd0 - c100 * DaysPer100
      c4 == IF clamp THEN AMin(rd1 \div DaysPer4, 24) ELSE rd1 \div DaysPer4
      rd2 == rd1 - c4 * DaysPer4
      ry == IF clamp THEN AMin(rd2 \div DaysPerNormal, 3) ELSE rd2 \div DaysPerNormal
      rd3 == rd2 - ry * DaysPerNormal
      yoff == ry + c4 * 4 + c100 * 100
      ml == AMonthLoop(0, rd3)
      m2 == ml[1] + 2
      wrap == m2 >= 12
  IN [yoff |-> IF wrap THEN yoff + 1 ELSE yoff, mo |-> (IF wrap THEN m2 - 12 ELSE m2) + 1, d |-> 1 + ml[2]]

\* the time-of-day half
ATimeOfDay(rs) == <<rs \div 3600, (rs \div 60) % 60, rs % 60>>

\* is_leap_year on an i32 (Rust `%` truncates: -4 % 4 = 0, -1 % 4 = -1)
AIsLeap(y) == TRem(y, 400) = 0 \/ (TRem(y, 4) = 0 /\ TRem(y, 100) # 0)

\* days_since_unix_epoch(year, month, month_day), branch by branch
ADaysSinceEpoch(y, mo, d) ==
  LET base == (y - 1970) * 365
      adj == IF y >= 1970
             THEN TDiv(y - 1968, 4) - TDiv(y - 1900, 100) + TDiv(y - 1600, 400) - (IF AIsLeap(y) /\ mo < 3 THEN 1 ELSE 0)
             ELSE TDiv(y - 1972, 4) - TDiv(y - 2000, 100) + TDiv(y - 2000, 400) + (IF AIsLeap(y) /\ mo >= 3 THEN 1 ELSE 0)
  IN base + adj + CumulNormal[mo] + d - 1
\* week_day: `(4 + days).rem_euclid(7)`; year_day: cumulative table + leap adjustment from March on
AWeekDay(y, mo, d) == (4 + ADaysSinceEpoch(y, mo, d)) % 7
AYearDay(y, mo, d) == CumulNormal[mo] + (IF mo >= 3 /\ AIsLeap(y) THEN 1 ELSE 0) + d - 1
=============================================================================
