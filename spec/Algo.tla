-------------------------------- MODULE Algo --------------------------------
(***************************************************************************)
(* The algorithm layer: the three procedures of tz-rs that are not a       *)
(* formula but a walk, written in the SHAPE OF THE RUST and on the same    *)
(* data (Zone / Rule records, CDS instants):                               *)
(*   ARuleIsDst   AlternateTime::find_local_time_type (the 12-leaf tree:   *)
(*                arm chosen by cmp(S(year), E(year)) of the current year, *)
(*                neighbour years consulted at the edges)                  *)
(*   AToLeap / AToUnix   the forward scan over the leap table and its      *)
(*                inverse (binary search for L - 1, negative-leap case)    *)
(*   ATypeAt      TimeZoneRef::find_local_time_type                        *)
(*   AFind        datetime::find::find_date_time (walk over the table with *)
(*                the (previous transition, previous type) pair, then the  *)
(*                trailing rule: 6 + 1 window times, sorted-or-swapped)    *)
(* Uses:                                                                   *)
(*  (1) refinement, checked by TLC in MC_Zone / MC_Rule / MC_Algo: on every*)
(*      bounded zone and interleaving rule the walk returns exactly the    *)
(*      declarative answer of Zone / Rule / Find (as a set, ascending);    *)
(*  (2) the trace specification compares every recorded search and lookup  *)
(*      with the walk (impl = algorithm = declarative), which localises a  *)
(*      disagreement; and on the zones of the recorded findings K1 / K2 -  *)
(*      where the walk and the declarative answer differ, that IS the      *)
(*      finding - only a result equal to the walk's is the known finding.  *)
(* i64 overflow is not modelled: the walk is used inside the domain where  *)
(* the statements fix the outcome (Find.FindRisky excluded).               *)
(***************************************************************************)
EXTENDS Find

NegInf == <<-2000000000, 0, 0>>       \* stands for i64::MIN as "previous transition time"
PosInf == <<2000000000, 0, 0>>        \* stands for the i64::MAX sentinel closing the window list

\* ---- leap scales ----
\* unix_time_to_unix_leap_time: for each record in order, stop if the running value is before it, else take unix + correction
RECURSIVE AScan(_, _, _, _)
AScan(lp, u, i, cur) == IF i > Len(lp) \/ CLt(cur, lp[i].r) THEN cur ELSE AScan(lp, u, i + 1, CAddSec(u, lp[i].c))
AToLeap(lp, u) == AScan(lp, u, 1, u)
\* unix_leap_time_to_unix_time: index = insertion point of L - 1 (spec/AlgoSearch.tla models the search itself)
AToUnix(lp, L) ==
  LET index == Cardinality({i \in 1..Len(lp) : CLt(lp[i].r, L)})
      c0 == IF index > 0 THEN lp[index].c ELSE 0
      c1 == IF index < Len(lp) /\ lp[index + 1].r = L /\ lp[index + 1].c < c0 THEN lp[index + 1].c ELSE c0
  IN CAddSec(L, -c1)

\* ---- the rule evaluator ----
AYear(u) == <<u[1], YicOfDay(u[2])>>
ARuleIsDst(r, u) ==
  LET y == AYear(u) yp == YNorm(y[1], y[2] - 1) yn == YNorm(y[1], y[2] + 1)
      cs == RS(r, y) ce == RE(r, y)
  IN IF CLe(cs, ce)
     THEN (IF CLt(u, cs) THEN (IF CLt(u, RE(r, yp)) THEN CLe(RS(r, yp), u) ELSE FALSE)
           ELSE IF CLt(u, ce) THEN TRUE
           ELSE (IF CLe(RS(r, yn), u) THEN CLt(u, RE(r, yn)) ELSE FALSE))
     ELSE (IF CLt(u, ce) THEN (IF CLt(u, RS(r, yp)) THEN CLt(u, RE(r, yp)) ELSE TRUE)
           ELSE IF CLt(u, cs) THEN FALSE
           ELSE (IF CLe(RE(r, yn), u) THEN CLe(RS(r, yn), u) ELSE TRUE))
\* [ok |-> type] or [err |-> kind]
ARuleType(rule, u) ==
  IF rule.k = "fixed" THEN [ok |-> rule.t]
  ELSE IF ~InRange(u) \/ ~YearInGuard(u[1], YicOfDay(u[2])) THEN [err |-> "OutOfRange"]
  ELSE [ok |-> IF ARuleIsDst(rule, u) THEN rule.dst ELSE rule.std]

\* ---- the lookup ----
ATypeAt(z, u) ==
  IF NTr(z) = 0 THEN (IF z.rule.k = "none" THEN [ok |-> z.ty[1]] ELSE ARuleType(z.rule, u))
  ELSE LET L == AToLeap(z.lp, u) IN
       IF CLe(LastT(z), L) THEN (IF z.rule.k = "none" THEN [err |-> "NoAvailableLocalTimeType"] ELSE ARuleType(z.rule, u))
       ELSE LET index == Cardinality({i \in 1..NTr(z) : CLe(z.tr[i].t, L)})         \* Ok(x) => x + 1, Err(x) => x
            IN [ok |-> IF index > 0 THEN TypeOfTr(z, index) ELSE z.ty[1]]

\* ---- the search ----
AGetTime(z, L0, ix) == LET ut == CAddSec(L0, -z.ty[ix + 1].off) IN <<ut, AToLeap(z.lp, ut)>>
RECURSIVE ATableWalk(_, _, _, _, _, _, _, _)
ATableWalk(z, f, ns, L0, i, prevT, prevIx, acc) ==
  IF i > NTr(z) THEN acc
  ELSE LET tr == z.tr[i]
           tyB == z.ty[prevIx + 1]
           gb == AGetTime(z, L0, prevIx)
           step == IF CLe(prevT, gb[2]) /\ CLt(gb[2], tr.t) THEN <<NormalEntry(f, ns, tyB)>>
                   ELSE IF i < NTr(z) \/ z.rule.k # "none"                          \* the last transition is ignored without a rule
                        THEN LET tyA == z.ty[tr.ix + 1] ga == AGetTime(z, L0, tr.ix) IN
                             IF CLe(tr.t, gb[2]) /\ CLt(ga[2], tr.t) THEN <<GapEntry(<<AToUnix(z.lp, tr.t), tyB, tyA>>, ns)>> ELSE <<>>
                        ELSE <<>>
       IN ATableWalk(z, f, ns, L0, i + 1, tr.t, tr.ix, acc \o step)
RECURSIVE ARuleWalk(_, _, _, _, _, _, _)
ARuleWalk(f, ns, times, trs, i, prev, acc) ==
  IF i > 7 THEN acc
  ELSE LET tt == times[i] w == trs[i]                                              \* w = <<before type, after type, instant if before, instant if after>>
           step == IF CLe(prev, w[3]) /\ CLt(w[3], tt) THEN <<NormalEntry(f, ns, w[1])>>
                   \* a transition that coincides with the previous or the next one delimits an empty period: no jump there
                   ELSE IF CLt(prev, tt) /\ i < 7 /\ CLt(tt, times[i + 1]) /\ CLe(tt, w[3]) /\ CLt(w[4], tt) THEN <<GapEntry(<<tt, w[1], w[2]>>, ns)>> ELSE <<>>
       IN ARuleWalk(f, ns, times, trs, i + 1, tt, acc \o step)
ARulePart(z, f, ns, L0) ==
  IF z.rule.k = "none" THEN <<>>
  ELSE IF z.rule.k = "fixed" THEN
       LET ut == CAddSec(L0, -z.rule.t.off) IN
       IF NTr(z) = 0 \/ CLe(AToUnix(z.lp, LastT(z)), ut) THEN <<NormalEntry(f, ns, z.rule.t)>> ELSE <<>>
  ELSE LET r == z.rule
           y == YSplit(f.y) yp == YNorm(y[1], y[2] - 1) yn == YNorm(y[1], y[2] + 1)
           uS == CAddSec(L0, -r.std.off) uD == CAddSec(L0, -r.dst.off)
           t0 == <<RS(r, yp), RE(r, yp), RS(r, y), RE(r, y), RS(r, yn), RE(r, yn), PosInf>>
           sorted == \A i \in 1..6 : CLe(t0[i], t0[i + 1])
           times == IF sorted THEN t0 ELSE <<t0[2], t0[1], t0[4], t0[3], t0[6], t0[5], t0[7]>>
           start == <<r.std, r.dst, uS, uD>>
           end == <<r.dst, r.std, uD, uS>>
           trs == IF sorted THEN <<start, end, start, end, start, end, start>> ELSE <<end, start, end, start, end, start, end>>
           prev0 == IF NTr(z) = 0 THEN NegInf ELSE AToUnix(z.lp, LastT(z))
           valid == {i \in 1..7 : CLt(prev0, times[i])}
       IN IF valid = {} THEN <<>> ELSE ARuleWalk(f, ns, times, trs, CHOOSE i \in valid : \A j \in valid : i <= j, prev0, <<>>)
\* the list returned for valid fields f (fields record incl. year f.y), nanoseconds ns
AFind(z, f, ns) ==
  LET L0 == UnixOf(f.y, f.mo, f.d, f.h, f.mi, f.s) IN
  IF NTr(z) = 0 /\ z.rule.k = "none" THEN <<NormalEntry(f, ns, z.ty[1])>>
  ELSE ATableWalk(z, f, ns, L0, 1, NegInf, 0, <<>>) \o ARulePart(z, f, ns, L0)

\* ---- refinement statements (instantiated by the bounded models) ----
\* the walk's lookup against the declarative outcome set
ATypeRefines(z, u) == LET a == ATypeAt(z, u) ta == TypeAt(z, u) IN
  IF "ok" \in DOMAIN a THEN a.ok \in ta.types ELSE a.err \in ta.err
\* the walk's list against the declarative expectation: same entries, none twice, ascending
AFindRefines(z, f, ns) ==
  LET list == AFind(z, f, ns) exp == Expected(z, f, ns) IN
  /\ SeqToSet(list) = exp
  /\ Len(list) = Cardinality(exp)
  /\ \A i \in 1..(Len(list) - 1) : ~WLt(EntryInstant(list[i + 1]), EntryInstant(list[i]))
ALeapRefines(lp, u) == AToLeap(lp, u) = ToLeap(lp, u) /\ AToUnix(lp, u) = ToUnix(lp, u)
=============================================================================
