//! One function per trace operation: call exactly one public tz-rs API and report everything observable.

use crate::mem::measure;
use crate::wire::*;
use serde_json::{json, Value};
#[cfg(feature = "cfg-alloc")]
use std::cell::RefCell;
use std::panic::{catch_unwind, AssertUnwindSafe};
use std::sync::Arc;
use tz::datetime::{DateTime, FoundDateTimeKind, UtcDateTime};
use tz::timezone::{AlternateTime, Julian0WithLeap, Julian1WithoutLeap, LeapSecond, LocalTimeType, MonthWeekDay, RuleDay, TimeZoneRef, Transition, TransitionRule};
#[cfg(feature = "cfg-alloc")]
use tz::timezone::{TimeZone, TimeZoneSettings};

pub const BUF_LEN: usize = 8;

/// The four lists of a zone, owned by the harness (so that the allocation-free API can be driven in every configuration).
pub struct ZoneParts {
    pub tr: Vec<Transition>,
    pub ty: Vec<LocalTimeType>,
    pub lp: Vec<LeapSecond>,
    pub rule: Option<TransitionRule>,
}

#[derive(Clone)]
pub struct State {
    /// current zone of the session (None = UTC); shared by reference between threads in the C15 driver
    pub parts: Option<Arc<ZoneParts>>,
    #[cfg(feature = "cfg-alloc")]
    pub owned: Option<Arc<TimeZone>>,
    pub buf: Vec<Option<FoundDateTimeKind>>,
}

impl State {
    pub fn new() -> Self {
        State {
            parts: None,
            #[cfg(feature = "cfg-alloc")]
            owned: None,
            buf: vec![None; BUF_LEN],
        }
    }

    fn clear_zone(&mut self) {
        self.parts = None;
        #[cfg(feature = "cfg-alloc")]
        {
            self.owned = None;
        }
        self.buf = vec![None; BUF_LEN];
    }

    #[cfg(feature = "cfg-alloc")]
    fn set_owned(&mut self, z: TimeZone) {
        let r = z.as_ref();
        self.parts = Some(Arc::new(ZoneParts { tr: r.transitions().to_vec(), ty: r.local_time_types().to_vec(), lp: r.leap_seconds().to_vec(), rule: *r.extra_rule() }));
        self.owned = Some(Arc::new(z));
        self.buf = vec![None; BUF_LEN];
    }
}

// ---------------------------------------------------------------------------------------------
// error kinds

pub fn kind_of_debug(dbg: &str) -> String {
    // "DateTime(InvalidMonth)" -> "DateTime.InvalidMonth"; "TzString(ParseInt(ParseIntError {..}))" -> "TzString.ParseInt"
    let mut parts = Vec::new();
    let mut cur = String::new();
    for ch in dbg.chars() {
        if ch.is_ascii_alphanumeric() || ch == '_' {
            cur.push(ch);
        } else {
            if !cur.is_empty() {
                parts.push(std::mem::take(&mut cur));
            }
            if ch != '(' || parts.len() >= 2 {
                break;
            }
        }
    }
    if !cur.is_empty() && parts.len() < 2 {
        parts.push(cur);
    }
    parts.join(".")
}

fn err<E: Into<tz::TzError>>(e: E) -> Value {
    let e: tz::TzError = e.into();
    json!({ "err": kind_of_debug(&format!("{e:?}")) })
}

fn ok(v: Value) -> Value {
    json!({ "ok": v })
}

// ---------------------------------------------------------------------------------------------
// observation of values

fn lt_json(t: &LocalTimeType) -> Value {
    json!({ "off": t.ut_offset(), "dst": t.is_dst() as u8, "des": bytes(t.time_zone_designation().as_bytes()) })
}

fn udt_json(x: &UtcDateTime) -> Value {
    json!({
        "y": x.year(), "mo": x.month(), "d": x.month_day(), "h": x.hour(), "mi": x.minute(), "s": x.second(),
        "ns": num(x.nanoseconds()), "wd": x.week_day(), "yd": x.year_day(),
        "u": w(x.unix_time() as i128), "tn": w(x.total_nanoseconds()),
    })
}

pub fn dt_json(x: &DateTime) -> Value {
    let t = x.local_time_type();
    json!({
        "y": x.year(), "mo": x.month(), "d": x.month_day(), "h": x.hour(), "mi": x.minute(), "s": x.second(),
        "ns": num(x.nanoseconds()), "wd": x.week_day(), "yd": x.year_day(),
        "u": w(x.unix_time() as i128), "tn": w(x.total_nanoseconds()),
        "off": t.ut_offset(), "dst": t.is_dst() as u8, "des": bytes(t.time_zone_designation().as_bytes()),
    })
}

fn opt_dt(x: Option<DateTime>) -> Value {
    match x {
        None => json!([]),
        Some(d) => json!([dt_json(&d)]),
    }
}

fn found_json(k: &FoundDateTimeKind) -> Value {
    match k {
        FoundDateTimeKind::Normal(d) => json!(["N", dt_json(d)]),
        FoundDateTimeKind::Skipped { before_transition, after_transition } => json!(["S", dt_json(before_transition), dt_json(after_transition)]),
    }
}

fn ruleday_json(d: &RuleDay) -> Value {
    match d {
        RuleDay::Julian1WithoutLeap(x) => json!(["J", x.get()]),
        RuleDay::Julian0WithLeap(x) => json!(["Z", x.get()]),
        RuleDay::MonthWeekDay(x) => json!(["M", x.month(), x.week(), x.week_day()]),
    }
}

fn rule_json(r: &Option<TransitionRule>) -> Value {
    match r {
        None => json!({ "k": "none" }),
        Some(TransitionRule::Fixed(t)) => json!({ "k": "fixed", "t": lt_json(t) }),
        Some(TransitionRule::Alternate(a)) => json!({
            "k": "alt", "std": lt_json(a.std()), "dst": lt_json(a.dst()),
            "sd": ruleday_json(a.dst_start()), "st": a.dst_start_time(), "ed": ruleday_json(a.dst_end()), "et": a.dst_end_time(),
        }),
    }
}

fn zone_json(z: &TimeZoneRef<'_>) -> Value {
    json!({
        "tr": z.transitions().iter().map(|t| json!([w(t.unix_leap_time() as i128), t.local_time_type_index()])).collect::<Vec<_>>(),
        "ty": z.local_time_types().iter().map(lt_json).collect::<Vec<_>>(),
        "lp": z.leap_seconds().iter().map(|l| json!([w(l.unix_leap_time() as i128), l.correction()])).collect::<Vec<_>>(),
        "rule": rule_json(z.extra_rule()),
    })
}

// ---------------------------------------------------------------------------------------------
// construction of arguments (plumbing; failures here are generator errors, reported as {"arg": ..})

fn mk_type(v: &Value) -> Result<LocalTimeType, Value> {
    // {"off":..,"dst":0/1,"des":[bytes]}  (empty des = no designation)
    let off = geti(v, "off");
    let dst = geti(v, "dst") != 0;
    let des = to_bytes(getv(v, "des"));
    let off32 = i32::try_from(off).map_err(|_| json!({"arg": "offset does not fit i32"}))?;
    // a refusal by the crate of a local time type that is only a component of the call's argument is an observation, not a
    // plumbing failure: the trace specification decides whether the type had to be accepted
    LocalTimeType::new(off32, dst, if des.is_empty() { None } else { Some(&des) }).map_err(|e| {
        let k = err(e);
        json!({"typeerr": k["err"], "t": {"off": off32, "des": des}})
    })
}

/// plumbing failures are generator errors; a refused component type is passed on as it is
fn arg_err(e: Value) -> Value {
    if e.get("typeerr").is_some() {
        e
    } else {
        json!({ "arg": e })
    }
}

fn mk_ruleday(v: &Value) -> Result<RuleDay, Value> {
    let arr = v.as_array().expect("ruleday: array");
    let k = arr[0].as_str().expect("ruleday: kind");
    let n = |i: usize| arr[i].as_i64().expect("ruleday: number");
    let u16of = |x: i64| u16::try_from(x).map_err(|_| json!({"arg": "u16"}));
    let u8of = |x: i64| u8::try_from(x).map_err(|_| json!({"arg": "u8"}));
    match k {
        "J" => Ok(RuleDay::Julian1WithoutLeap(Julian1WithoutLeap::new(u16of(n(1))?).map_err(err)?)),
        "Z" => Ok(RuleDay::Julian0WithLeap(Julian0WithLeap::new(u16of(n(1))?).map_err(err)?)),
        "M" => Ok(RuleDay::MonthWeekDay(MonthWeekDay::new(u8of(n(1))?, u8of(n(2))?, u8of(n(3))?).map_err(err)?)),
        _ => Err(json!({"arg": "ruleday kind"})),
    }
}

fn mk_alt(v: &Value) -> Result<AlternateTime, Value> {
    let std = mk_type(getv(v, "std"))?;
    let dst = mk_type(getv(v, "dst"))?;
    let sd = mk_ruleday(getv(v, "sd"))?;
    let ed = mk_ruleday(getv(v, "ed"))?;
    let st = i32::try_from(geti(v, "st")).map_err(|_| json!({"arg": "st"}))?;
    let et = i32::try_from(geti(v, "et")).map_err(|_| json!({"arg": "et"}))?;
    AlternateTime::new(std, dst, sd, st, ed, et).map_err(err)
}

fn mk_rule(v: &Value) -> Result<Option<TransitionRule>, Value> {
    match gets(v, "k") {
        "none" => Ok(None),
        "fixed" => Ok(Some(TransitionRule::Fixed(mk_type(getv(v, "t"))?))),
        "alt" => Ok(Some(TransitionRule::Alternate(mk_alt(v)?))),
        _ => Err(json!({"arg": "rule kind"})),
    }
}

#[allow(clippy::type_complexity)]
fn mk_zone_parts(a: &Value) -> Result<(Vec<Transition>, Vec<LocalTimeType>, Vec<LeapSecond>, Option<TransitionRule>), Value> {
    let mut tr = Vec::new();
    for t in getv(a, "tr").as_array().expect("tr") {
        tr.push(Transition::new(w_to_i64(&t[0]), t[1].as_u64().expect("ix") as usize));
    }
    let mut ty = Vec::new();
    for t in getv(a, "ty").as_array().expect("ty") {
        ty.push(mk_type(t).map_err(arg_err)?);
    }
    let mut lp = Vec::new();
    for l in getv(a, "lp").as_array().expect("lp") {
        lp.push(LeapSecond::new(w_to_i64(&l[0]), l[1].as_i64().expect("corr") as i32));
    }
    // a rule that cannot be constructed means the zone cannot be constructed either: that refusal is the result
    let rule = mk_rule(getv(a, "rule")).map_err(|e| match e.get("err") {
        Some(k) => json!({"err": k, "ref": k}),
        None => arg_err(e),
    })?;
    Ok((tr, ty, lp, rule))
}

struct Fields {
    y: i32,
    mo: u8,
    d: u8,
    h: u8,
    mi: u8,
    s: u8,
    ns: u32,
}

fn fields(a: &Value) -> Fields {
    Fields {
        y: geti(a, "y") as i32,
        mo: geti(a, "mo") as u8,
        d: geti(a, "d") as u8,
        h: geti(a, "h") as u8,
        mi: geti(a, "mi") as u8,
        s: geti(a, "s") as u8,
        // "nsw" carries a nanosecond argument beyond what TLC's 32-bit integers can hold (the logged "ns" is then 2^31-1: equally invalid)
        ns: match a.get("nsw") {
            Some(w) => w_to_i128(w) as u32,
            None => geti(a, "ns") as u32,
        },
    }
}

// ---------------------------------------------------------------------------------------------
// virtual file system for `resolve` (thread-local because TimeZoneSettings takes a plain fn pointer)

#[cfg(feature = "cfg-alloc")]
thread_local! {
    static VFS: RefCell<Vec<(String, Option<Vec<u8>>)>> = const { RefCell::new(Vec::new()) };
    static READS: RefCell<Vec<String>> = const { RefCell::new(Vec::new()) };
}

#[cfg(feature = "cfg-alloc")]
fn vfs_read(path: &str) -> Result<Vec<u8>, Box<dyn std::error::Error + Send + Sync + 'static>> {
    READS.with(|r| r.borrow_mut().push(path.to_string()));
    VFS.with(|v| {
        for (p, c) in v.borrow().iter() {
            if p == path {
                return match c {
                    Some(b) => Ok(b.clone()),
                    None => Err(vfs_error(path, "unreadable")),
                };
            }
        }
        Err(vfs_error(path, "not found"))
    })
}

/// The error a failing read reports. What kind of error it is (a plain message, or an `std::io::Error` of one kind or another)
/// is the reader's business and must not matter to the resolution: the kind is chosen from the path, so that every plan meets
/// several kinds, identically in every run and build.
#[cfg(feature = "cfg-alloc")]
fn vfs_error(path: &str, what: &str) -> Box<dyn std::error::Error + Send + Sync + 'static> {
    use std::io::{Error, ErrorKind};
    let h = path.bytes().fold(7u32, |a, b| a.wrapping_mul(31).wrapping_add(b as u32));
    match h % 5 {
        0 => what.into(),
        1 => Box::new(Error::new(ErrorKind::NotFound, what.to_string())),
        2 => Box::new(Error::new(ErrorKind::PermissionDenied, what.to_string())),
        3 => Box::new(Error::new(ErrorKind::Other, what.to_string())),
        _ => Box::new(Error::new(ErrorKind::InvalidInput, what.to_string())),
    }
}

/// Local time type of a rendering event: offset only, or offset + DST flag + designation when the event names them.
fn render_type(a: &Value, off: i32) -> Result<LocalTimeType, tz::error::timezone::LocalTimeTypeError> {
    match a.get("des") {
        Some(d) => LocalTimeType::new(off, a.get("dst").and_then(|x| x.as_i64()).unwrap_or(0) != 0, Some(&to_bytes(d))),
        None => LocalTimeType::with_ut_offset(off),
    }
}

#[cfg(feature = "cfg-alloc")]
fn crate_err(e: tz::Error) -> Value {
    match e {
        tz::Error::Io(e) => json!({ "err": "Io", "msg": e.to_string() }),
        tz::Error::Tz(t) => err(t),
        #[allow(unreachable_patterns)]
        _ => json!({ "err": "Other" }),
    }
}

/// Minimal TZif wrapper around a footer: one UTC type, no transitions. `ver` is b'2' or b'3'.
#[cfg(feature = "cfg-alloc")]
pub fn tzif_with_footer(ver: u8, footer: &[u8]) -> Vec<u8> {
    let mut out = Vec::new();
    for _ in 0..2 {
        out.extend_from_slice(b"TZif");
        out.push(ver);
        out.extend_from_slice(&[0; 15]);
        for c in [0u32, 0, 0, 0, 1, 4] {
            out.extend_from_slice(&c.to_be_bytes());
        }
        out.extend_from_slice(&[0, 0, 0, 0, 0, 0]); // ttinfo: offset 0, not dst, index 0
        out.extend_from_slice(b"UTC\0");
    }
    out.push(b'\n');
    out.extend_from_slice(footer);
    out.push(b'\n');
    out
}

// ---------------------------------------------------------------------------------------------

fn zone_ref<'a>(st: &'a State) -> TimeZoneRef<'a> {
    match &st.parts {
        Some(p) => TimeZoneRef::new(&p.tr, &p.ty, &p.lp, &p.rule).expect("session zone was validated when it was set"),
        None => TimeZoneRef::utc(),
    }
}

const UNAVAILABLE: &str = "operation not available in this feature configuration";

#[cfg(feature = "cfg-alloc")]
fn find_json(a: &Value, z: TimeZoneRef<'_>) -> Value {
    let f = fields(a);
    match measure(|| DateTime::find(f.y, f.mo, f.d, f.h, f.mi, f.s, f.ns, z)) {
        Ok(l) => {
            let unique = opt_dt(l.unique());
            let earliest = opt_dt(l.earliest());
            let latest = opt_dt(l.latest());
            let list: Vec<Value> = l.into_inner().iter().map(found_json).collect();
            ok(json!({ "list": list, "unique": unique, "earliest": earliest, "latest": latest }))
        }
        Err(e) => err(e),
    }
}

/// Without an allocator tz-rs has no `DateTime::find`: the same observation is taken through `find_n` with a buffer that is always large enough.
#[cfg(not(feature = "cfg-alloc"))]
fn find_json(a: &Value, z: TimeZoneRef<'_>) -> Value {
    let f = fields(a);
    let mut scratch = [None; 64];
    match DateTime::find_n(&mut scratch, f.y, f.mo, f.d, f.h, f.mi, f.s, f.ns, z) {
        Ok(l) => {
            let list: Vec<Value> = l.data().iter().flatten().map(found_json).collect();
            ok(json!({ "list": list, "unique": opt_dt(l.unique()), "earliest": opt_dt(l.earliest()), "latest": opt_dt(l.latest()) }))
        }
        Err(e) => err(e),
    }
}

pub fn exec(op: &str, a: &Value, st: &mut State) -> Value {
    let r = catch_unwind(AssertUnwindSafe(|| exec_inner(op, a, st)));
    match r {
        Ok(v) => v,
        Err(p) => {
            let msg = if let Some(s) = p.downcast_ref::<&str>() {
                s.to_string()
            } else if let Some(s) = p.downcast_ref::<String>() {
                s.clone()
            } else {
                "?".to_string()
            };
            json!({ "panic": msg })
        }
    }
}

fn exec_inner(op: &str, a: &Value, st: &mut State) -> Value {
    match op {
        // ---- C01 ----
        "gmtime" => {
            let t = w_to_i64(getv(a, "t"));
            let ns = geti(a, "ns") as u32;
            match gets(a, "via") {
                "utc" => UtcDateTime::from_timespec(t, ns).map(|x| udt_json(&x)).map(ok).unwrap_or_else(err),
                "dt" => DateTime::from_timespec(t, ns, TimeZoneRef::utc()).map(|x| dt_json(&x)).map(ok).unwrap_or_else(err),
                _ => json!({"arg": "via"}),
            }
        }
        // ---- C02 ----
        "timegm" => {
            let f = fields(a);
            match gets(a, "via") {
                "utc" => UtcDateTime::new(f.y, f.mo, f.d, f.h, f.mi, f.s, f.ns).map(|x| udt_json(&x)).map(ok).unwrap_or_else(err),
                "dt" => DateTime::new(f.y, f.mo, f.d, f.h, f.mi, f.s, f.ns, LocalTimeType::utc()).map(|x| dt_json(&x)).map(ok).unwrap_or_else(err),
                _ => json!({"arg": "via"}),
            }
        }
        "utccmp" => {
            let fa = fields(getv(a, "a"));
            let fb = fields(getv(a, "b"));
            let x = UtcDateTime::new(fa.y, fa.mo, fa.d, fa.h, fa.mi, fa.s, fa.ns);
            let y = UtcDateTime::new(fb.y, fb.mo, fb.d, fb.h, fb.mi, fb.s, fb.ns);
            match (x, y) {
                (Ok(x), Ok(y)) => ok(json!({
                    "ord": match x.cmp(&y) { std::cmp::Ordering::Less => -1, std::cmp::Ordering::Equal => 0, std::cmp::Ordering::Greater => 1 },
                    "eq": (x == y) as u8,
                    "ua": w(x.unix_time() as i128), "ub": w(y.unix_time() as i128),
                })),
                (Err(e), _) | (_, Err(e)) => err(e),
            }
        }
        // ---- C16 ----
        "fromnanos" => {
            let n = w_to_i128(getv(a, "N"));
            match gets(a, "via") {
                "utc" => UtcDateTime::from_total_nanoseconds(n).map(|x| udt_json(&x)).map(ok).unwrap_or_else(err),
                "local" => match mk_type(getv(a, "type")) {
                    Ok(t) => DateTime::from_total_nanoseconds_and_local(n, t).map(|x| dt_json(&x)).map(ok).unwrap_or_else(err),
                    Err(e) => arg_err(e),
                },
                "zone" => DateTime::from_total_nanoseconds(n, zone_ref(st)).map(|x| dt_json(&x)).map(ok).unwrap_or_else(err),
                _ => json!({"arg": "via"}),
            }
        }
        // ---- C13 / C14 ----
        "type" => {
            let off = geti(a, "off");
            let dst = geti(a, "dst") != 0;
            let des = to_bytes(getv(a, "des"));
            let nodes = a.get("nodes").and_then(|x| x.as_i64()).unwrap_or(0) != 0;
            match gets(a, "via") {
                "new" => LocalTimeType::new(off as i32, dst, if nodes { None } else { Some(&des) }).map(|t| lt_json(&t)).map(ok).unwrap_or_else(err),
                "with_ut_offset" => LocalTimeType::with_ut_offset(off as i32).map(|t| lt_json(&t)).map(ok).unwrap_or_else(err),
                _ => json!({"arg": "via"}),
            }
        }
        "newdt" => {
            let f = fields(a);
            match mk_type(getv(a, "type")) {
                Ok(t) => DateTime::new(f.y, f.mo, f.d, f.h, f.mi, f.s, f.ns, t).map(|x| dt_json(&x)).map(ok).unwrap_or_else(err),
                Err(e) => arg_err(e),
            }
        }
        "fromlocal" => {
            let t = w_to_i64(getv(a, "t"));
            let ns = geti(a, "ns") as u32;
            match mk_type(getv(a, "type")) {
                Ok(ty) => DateTime::from_timespec_and_local(t, ns, ty).map(|x| dt_json(&x)).map(ok).unwrap_or_else(err),
                Err(e) => arg_err(e),
            }
        }
        "localtime" => {
            let t = w_to_i64(getv(a, "u"));
            let ns = geti(a, "ns") as u32;
            DateTime::from_timespec(t, ns, zone_ref(st)).map(|x| dt_json(&x)).map(ok).unwrap_or_else(err)
        }
        "roundtrip" => {
            // C05: the local date-time of an instant, searched for again in the same zone (own 8-slot buffer: all feature sets)
            let t = w_to_i64(getv(a, "u"));
            let ns = geti(a, "ns") as u32;
            let dt = match DateTime::from_timespec(t, ns, zone_ref(st)) {
                Ok(x) => x,
                Err(e) => {
                    let mut v = err(e);
                    v.as_object_mut().unwrap().insert("stage".into(), Value::from("localtime"));
                    return v;
                }
            };
            let mut buf: [Option<FoundDateTimeKind>; 8] = [None; 8];
            match DateTime::find_n(&mut buf, dt.year(), dt.month(), dt.month_day(), dt.hour(), dt.minute(), dt.second(), ns, zone_ref(st)) {
                Ok(l) => {
                    let lt = dt.local_time_type();
                    let hits = l.data().iter().flatten().filter(|k| match k {
                        FoundDateTimeKind::Normal(d) => d.unix_time() == t && d.nanoseconds() == ns && d.local_time_type() == lt,
                        _ => false,
                    }).count();
                    ok(json!({ "dt": dt_json(&dt), "hits": hits, "n": l.count() }))
                }
                Err(e) => {
                    let mut v = err(e);
                    v.as_object_mut().unwrap().insert("stage".into(), Value::from("find"));
                    v.as_object_mut().unwrap().insert("dt".into(), dt_json(&dt));
                    v
                }
            }
        }
        "project" => {
            // source date-time given as (t, ns, type) or by its UTC fields; projected into the current zone
            let t = a.get("t").map(w_to_i64).unwrap_or(0);
            let ns = geti(a, "ns") as u32;
            match gets(a, "via") {
                "dt" => match mk_type(getv(a, "type")) {
                    Ok(ty) => match DateTime::from_timespec_and_local(t, ns, ty) {
                        Ok(src) => src.project(zone_ref(st)).map(|x| json!({"src": dt_json(&src), "dst": dt_json(&x)})).map(ok).unwrap_or_else(err),
                        Err(_) => json!({ "err": "Construct" }),
                    },
                    Err(e) => arg_err(e),
                },
                "utc" => match UtcDateTime::from_timespec(t, ns) {
                    Ok(src) => src.project(zone_ref(st)).map(|x| json!({"src": udt_json(&src), "dst": dt_json(&x)})).map(ok).unwrap_or_else(err),
                    Err(_) => json!({ "err": "Construct" }),
                },
                // the source is a UTC date-time built from its fields (second 60 possible): the instant is what the fields denote
                "utcnew" => {
                    let f = fields(a);
                    match UtcDateTime::new(f.y, f.mo, f.d, f.h, f.mi, f.s, f.ns) {
                        Ok(src) => src.project(zone_ref(st)).map(|x| json!({"src": udt_json(&src), "dst": dt_json(&x)})).map(ok).unwrap_or_else(err),
                        Err(_) => json!({ "err": "Construct" }),
                    }
                }
                _ => json!({"arg": "via"}),
            }
        }
        "dtcmp" => {
            let mk = |v: &Value| -> Result<DateTime, Value> {
                let ty = mk_type(getv(v, "type"))?;
                if v.get("y").is_some() {
                    // an operand given by its fields (second 60 possible), built with DateTime::new
                    let f = fields(v);
                    return DateTime::new(f.y, f.mo, f.d, f.h, f.mi, f.s, f.ns, ty).map_err(err);
                }
                let t = w_to_i64(getv(v, "t"));
                let ns = geti(v, "ns") as u32;
                DateTime::from_timespec_and_local(t, ns, ty).map_err(err)
            };
            match (mk(getv(a, "a")), mk(getv(a, "b"))) {
                (Ok(x), Ok(y)) => ok(json!({
                    "eq": (x == y) as u8,
                    "ord": match x.partial_cmp(&y) { Some(std::cmp::Ordering::Less) => -1, Some(std::cmp::Ordering::Equal) => 0, Some(std::cmp::Ordering::Greater) => 1, None => 2 },
                })),
                (Err(e), _) | (_, Err(e)) => {
                    if e.get("typeerr").is_some() {
                        e
                    } else {
                        json!({ "err": "Construct" })
                    }
                }
            }
        }
        // ---- C11 ----
        "ruleday" => mk_ruleday(getv(a, "d")).map(|d| ok(ruleday_json(&d))).unwrap_or_else(|e| e),
        "rule" => {
            let std = match mk_type(getv(a, "std")) {
                Ok(t) => t,
                Err(e) => return arg_err(e),
            };
            let dst = match mk_type(getv(a, "dst")) {
                Ok(t) => t,
                Err(e) => return arg_err(e),
            };
            // a day that its own constructor refuses ends the call with that refusal (a client cannot go further)
            let sd = match mk_ruleday(getv(a, "sd")) {
                Ok(t) => t,
                Err(e) => return e,
            };
            let ed = match mk_ruleday(getv(a, "ed")) {
                Ok(t) => t,
                Err(e) => return e,
            };
            AlternateTime::new(std, dst, sd, geti(a, "st") as i32, ed, geti(a, "et") as i32).map(|_| ok(json!(1))).unwrap_or_else(err)
        }
        // ---- C13 / C03 ----
        "zone" => {
            let (tr, ty, lp, rule) = match mk_zone_parts(a) {
                Ok(p) => p,
                Err(e) => {
                    st.clear_zone();
                    return e;
                }
            };
            // both constructors are always called so that "decide identically" is observable in every event
            let r_ref = TimeZoneRef::new(&tr, &ty, &lp, &rule).map(|z| zone_json(&z));
            let kref = match &r_ref {
                Ok(_) => "ok".to_string(),
                Err(e) => kind_of_debug(&format!("{e:?}")),
            };
            #[cfg(feature = "cfg-alloc")]
            let r_owned = TimeZone::new(tr.clone(), ty.clone(), lp.clone(), rule).map(|z| zone_json(&z.as_ref())).map_err(|e| kind_of_debug(&format!("{e:?}")));
            // derived equality: the owned zone seen through as_ref() equals the borrowed zone built from the same parts
            #[cfg(feature = "cfg-alloc")]
            let eqref = match (TimeZone::new(tr.clone(), ty.clone(), lp.clone(), rule), TimeZoneRef::new(&tr, &ty, &lp, &rule)) {
                (Ok(o), Ok(r)) => (o.as_ref() == r && o.clone() == o) as u8,
                _ => 1,
            };
            #[cfg(not(feature = "cfg-alloc"))]
            let eqref = 1u8;
            #[cfg(not(feature = "cfg-alloc"))]
            let r_owned = r_ref.map_err(|e| kind_of_debug(&format!("{e:?}")));
            match r_owned {
                Ok(echo) => {
                    #[cfg(feature = "cfg-alloc")]
                    {
                        st.owned = TimeZone::new(tr.clone(), ty.clone(), lp.clone(), rule).ok().map(Arc::new);
                    }
                    if kref == "ok" {
                        st.parts = Some(Arc::new(ZoneParts { tr, ty, lp, rule }));
                    } else {
                        st.parts = None;
                    }
                    st.buf = vec![None; BUF_LEN];
                    json!({ "ok": {"ref": kref, "echo": echo, "eq": eqref} })
                }
                Err(k) => {
                    st.clear_zone();
                    json!({ "err": k, "ref": kref })
                }
            }
        }
        "lookup" => {
            let u = w_to_i64(getv(a, "u"));
            #[cfg(feature = "cfg-alloc")]
            if let (Some(o), "owned") = (&st.owned, gets(a, "via")) {
                return o.find_local_time_type(u).map(lt_json).map(ok).unwrap_or_else(err);
            }
            zone_ref(st).find_local_time_type(u).map(lt_json).map(ok).unwrap_or_else(err)
        }
        // ---- C05 / C06 / C17 ----
        "find" => find_json(a, zone_ref(st)),
        "findn" => {
            let f = fields(a);
            let n = geti(a, "n") as usize;
            let full = find_json(a, zone_ref(st));
            let parts = st.parts.clone();
            let z = match &parts {
                Some(p) => TimeZoneRef::new(&p.tr, &p.ty, &p.lp, &p.rule).expect("validated"),
                None => TimeZoneRef::utc(),
            };
            let buf = &mut st.buf;
            let res = match DateTime::find_n(&mut buf[..n], f.y, f.mo, f.d, f.h, f.mi, f.s, f.ns, z) {
                Ok(l) => ok(json!({
                    "data": l.data().iter().map(|x| match x { Some(k) => found_json(k), None => json!([]) }).collect::<Vec<_>>(),
                    "count": l.count(), "exh": l.is_exhaustive() as u8,
                    "unique": opt_dt(l.unique()), "earliest": opt_dt(l.earliest()), "latest": opt_dt(l.latest()),
                })),
                Err(e) => err(e),
            };
            let whole: Vec<Value> = buf.iter().map(|x| match x { Some(k) => found_json(k), None => json!([]) }).collect();
            json!({ "full": full, "res": res, "buf": whole })
        }
        // ---- C18 ----
        "render" => {
            let f = fields(a);
            let off = geti(a, "off") as i32;
            match gets(a, "via") {
                "utc" => UtcDateTime::new(f.y, f.mo, f.d, f.h, f.mi, f.s, f.ns).map(|x| ok(json!({"text": bytes(x.to_string().as_bytes())}))).unwrap_or_else(err),
                "dtnew" => match render_type(a, off) {
                    Ok(t) => DateTime::new(f.y, f.mo, f.d, f.h, f.mi, f.s, f.ns, t).map(|x| ok(json!({"text": bytes(x.to_string().as_bytes()), "dt": dt_json(&x)}))).unwrap_or_else(err),
                    Err(e) => err(e),
                },
                _ => json!({"arg": "via"}),
            }
        }
        "rendert" => {
            // render of a date-time obtained from a timestamp (or a total count of nanoseconds) and an offset
            let off = geti(a, "off") as i32;
            if let Some(n) = a.get("N") {
                let n = w_to_i128(n);
                return match render_type(a, off) {
                    Ok(ty) => DateTime::from_total_nanoseconds_and_local(n, ty).map(|x| ok(json!({"text": bytes(x.to_string().as_bytes()), "dt": dt_json(&x)}))).unwrap_or_else(err),
                    Err(e) => err(e),
                };
            }
            let t = w_to_i64(getv(a, "t"));
            let ns = geti(a, "ns") as u32;
            match render_type(a, off) {
                Ok(ty) => DateTime::from_timespec_and_local(t, ns, ty).map(|x| ok(json!({"text": bytes(x.to_string().as_bytes()), "dt": dt_json(&x)}))).unwrap_or_else(err),
                Err(e) => err(e),
            }
        }
        // ---- C09 ----
        #[cfg(feature = "cfg-alloc")]
        "tzstring" => {
            let s = to_bytes(getv(a, "s"));
            match gets(a, "via") {
                "settings" => {
                    let text = match std::str::from_utf8(&s) {
                        Ok(t) => t,
                        Err(_) => return json!({"arg": "utf8"}),
                    };
                    VFS.with(|v| v.borrow_mut().clear());
                    READS.with(|r| r.borrow_mut().clear());
                    let settings = TimeZoneSettings::new(&[], vfs_read);
                    match measure(|| settings.parse_posix_tz(text)) {
                        Ok(z) => ok(json!({ "rule": rule_json(z.as_ref().extra_rule()), "ntypes": z.as_ref().local_time_types().len(), "ntr": z.as_ref().transitions().len() })),
                        Err(e) => crate_err(e),
                    }
                }
                v @ ("v2" | "v3") => {
                    let file = tzif_with_footer(if v == "v2" { b'2' } else { b'3' }, &s);
                    match measure(|| TimeZone::from_tz_data(&file)) {
                        Ok(z) => ok(json!({ "rule": rule_json(z.as_ref().extra_rule()), "ntypes": z.as_ref().local_time_types().len(), "ntr": z.as_ref().transitions().len() })),
                        Err(e) => err(e),
                    }
                }
                _ => json!({"arg": "via"}),
            }
        }
        // ---- C08 ----
        #[cfg(feature = "cfg-alloc")]
        "tzif" => {
            let b = to_bytes(getv(a, "bytes"));
            match measure(|| TimeZone::from_tz_data(&b)) {
                Ok(z) => {
                    let j = zone_json(&z.as_ref());
                    st.set_owned(z);
                    ok(j)
                }
                Err(e) => {
                    st.clear_zone();
                    err(e)
                }
            }
        }
        // ---- C20 ----
        #[cfg(feature = "cfg-alloc")]
        "resolve" => {
            let s = String::from_utf8(to_bytes(getv(a, "s"))).expect("resolve: utf8 TZ value");
            let dirs: Vec<String> = getv(a, "dirs").as_array().unwrap().iter().map(|d| String::from_utf8(to_bytes(d)).unwrap()).collect();
            let dir_refs: Vec<&str> = dirs.iter().map(|d| d.as_str()).collect();
            let mut vfs = Vec::new();
            for ent in getv(a, "vfs").as_array().unwrap() {
                let p = String::from_utf8(to_bytes(&ent[0])).unwrap();
                let c = match ent[1].as_array() {
                    Some(arr) if arr.len() == 1 && arr[0].as_i64() == Some(-1) => None,   // [-1] = exists but cannot be read
                    _ => Some(to_bytes(&ent[1])),
                };
                vfs.push((p, c));
            }
            VFS.with(|v| *v.borrow_mut() = vfs);
            READS.with(|r| r.borrow_mut().clear());
            let settings = TimeZoneSettings::new(&dir_refs, vfs_read);
            // optional earlier resolutions on the SAME settings value (their results are dropped): the judged call must not depend on them
            if let Some(pre) = a.get("pre").and_then(|p| p.as_array()) {
                for p in pre {
                    let ps = String::from_utf8(to_bytes(p)).expect("resolve: utf8 pre value");
                    let _ = settings.parse_posix_tz(&ps);
                }
                READS.with(|r| r.borrow_mut().clear());
            }
            let res = if gets(a, "via") == "local" { settings.parse_local() } else { settings.parse_posix_tz(&s) };
            let reads: Vec<Value> = READS.with(|r| r.borrow().iter().map(|p| bytes(p.as_bytes())).collect());
            match res {
                Ok(z) => {
                    let j = zone_json(&z.as_ref());
                    let keep = st.buf.clone();
                    st.set_owned(z);
                    st.buf = keep;
                    json!({ "ok": {"zone": j}, "reads": reads })
                }
                Err(e) => {
                    let mut v = crate_err(e);
                    v.as_object_mut().unwrap().insert("reads".into(), Value::Array(reads));
                    v
                }
            }
        }
        // ---- C15: the two entry points that go through the process environment / default settings ----
        #[cfg(feature = "cfg-std")]
        "posixtz" => {
            let s = String::from_utf8(to_bytes(getv(a, "s"))).expect("posixtz: utf8");
            match TimeZone::from_posix_tz(&s) {
                Ok(z) => ok(zone_json(&z.as_ref())),
                Err(e) => crate_err(e),
            }
        }
        #[cfg(feature = "cfg-std")]
        "local" => match TimeZone::local() {
            Ok(z) => ok(zone_json(&z.as_ref())),
            Err(e) => crate_err(e),
        },
        "footprint" => ok(json!(1)),
        // ---- convenience constructors ----
        #[cfg(feature = "cfg-alloc")]
        "fixedzone" => {
            let off = geti(a, "off") as i32;
            match TimeZone::fixed(off) {
                Ok(z) => {
                    let j = zone_json(&z.as_ref());
                    let same_as_utc = (z == TimeZone::utc()) as u8;
                    st.set_owned(z);
                    ok(json!({"zone": j, "utc": zone_json(&TimeZoneRef::utc()), "utc_owned": zone_json(&TimeZone::utc().as_ref()), "equals_utc": same_as_utc, "lt_utc": lt_json(&LocalTimeType::utc())}))
                }
                Err(e) => {
                    st.clear_zone();
                    err(e)
                }
            }
        }
        // ---- the clock-reading entry points, bracketed by two readings of the same clock ----
        #[cfg(feature = "cfg-std")]
        "now" => {
            let clock = || std::time::SystemTime::now().duration_since(std::time::UNIX_EPOCH).map(|d| d.as_nanos() as i128).unwrap_or(0);
            let t0 = clock();
            let res = match gets(a, "via") {
                "utc" => UtcDateTime::now().map(|x| udt_json(&x)),
                _ => DateTime::now(zone_ref(st)).map(|x| dt_json(&x)),
            };
            let cur = st.owned.as_ref().map(|z| z.find_current_local_time_type().map(lt_json));
            let t1 = clock();
            match res {
                Ok(v) => ok(json!({"t0": w(t0), "dt": v, "t1": w(t1), "current_type": match cur { Some(Ok(t)) => json!([t]), _ => json!([]) }})),
                Err(e) => err(e),
            }
        }
        #[allow(unreachable_patterns)]
        "tzstring" | "tzif" | "resolve" | "posixtz" | "local" | "fixedzone" | "now" => json!({ "arg": UNAVAILABLE }),
        // observations of the reference implementations (recorded by lib/refs.py) are passed through unchanged:
        // the trace specification judges them against the same definitions as tz-rs (C10)
        "ref" => ok(getv(a, "obs").clone()),
        "refmk" => ok(json!({ "set": getv(a, "set").clone() })),
        _ => json!({ "arg": format!("unknown op {op}") }),
    }
}
