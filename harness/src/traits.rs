//! Compile-time assertions for C15: every public type can be shared and sent across threads, and the value types have
//! no interior mutability that a panic could leave inconsistent (`Cell`/`RefCell` fields would make them `!Sync` and
//! `!RefUnwindSafe`). Compiled only with `--features assert-traits`; a compile error here is the violation.
#![allow(dead_code)]
use std::panic::RefUnwindSafe;

fn shared<T: Send + Sync + 'static>() {}
fn value<T: Send + Sync + RefUnwindSafe + Copy + 'static>() {}
fn owned<T: Send + Sync + RefUnwindSafe + 'static>() {}

pub fn all() {
    value::<tz::UtcDateTime>();
    value::<tz::DateTime>();
    value::<tz::LocalTimeType>();
    value::<tz::TimeZoneRef<'static>>();
    value::<tz::timezone::Transition>();
    value::<tz::timezone::LeapSecond>();
    value::<tz::timezone::TransitionRule>();
    value::<tz::timezone::AlternateTime>();
    value::<tz::timezone::RuleDay>();
    value::<tz::timezone::MonthWeekDay>();
    value::<tz::timezone::Julian0WithLeap>();
    value::<tz::timezone::Julian1WithoutLeap>();
    value::<tz::datetime::FoundDateTimeKind>();
    shared::<tz::datetime::FoundDateTimeListRefMut<'static>>();
    shared::<tz::TzError>();
    shared::<tz::Error>();
    #[cfg(feature = "cfg-alloc")]
    {
        owned::<tz::TimeZone>();
        owned::<tz::datetime::FoundDateTimeList>();
        shared::<tz::TimeZoneSettings<'static>>();
    }
}
