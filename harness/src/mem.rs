//! Counting allocator (in the harness, not in tz-rs): current and peak bytes. `measure` brackets exactly one call into the
//! crate under test, so that the harness's own bookkeeping (JSON values etc.) is not attributed to it (C07's allocation bound).
use std::alloc::{GlobalAlloc, Layout, System};
use std::sync::atomic::{AtomicUsize, Ordering};

pub struct Counting;
static CUR: AtomicUsize = AtomicUsize::new(0);
static PEAK: AtomicUsize = AtomicUsize::new(0);
static LAST: AtomicUsize = AtomicUsize::new(0);

unsafe impl GlobalAlloc for Counting {
    unsafe fn alloc(&self, l: Layout) -> *mut u8 {
        let p = System.alloc(l);
        if !p.is_null() {
            let c = CUR.fetch_add(l.size(), Ordering::Relaxed) + l.size();
            PEAK.fetch_max(c, Ordering::Relaxed);
        }
        p
    }
    unsafe fn dealloc(&self, p: *mut u8, l: Layout) {
        CUR.fetch_sub(l.size(), Ordering::Relaxed);
        System.dealloc(p, l)
    }
    unsafe fn realloc(&self, p: *mut u8, l: Layout, new: usize) -> *mut u8 {
        let q = System.realloc(p, l, new);
        if !q.is_null() {
            if new >= l.size() {
                let c = CUR.fetch_add(new - l.size(), Ordering::Relaxed) + (new - l.size());
                PEAK.fetch_max(c, Ordering::Relaxed);
            } else {
                CUR.fetch_sub(l.size() - new, Ordering::Relaxed);
            }
        }
        q
    }
}

/// Peak number of bytes allocated (above the level at entry) while `f` runs; single-threaded use only.
pub fn measure<T>(f: impl FnOnce() -> T) -> T {
    let base = CUR.load(Ordering::Relaxed);
    PEAK.store(base, Ordering::Relaxed);
    let r = f();
    let peak = PEAK.load(Ordering::Relaxed).saturating_sub(base);
    LAST.fetch_max(peak, Ordering::Relaxed);
    r
}
pub fn clear_last() {
    LAST.store(0, Ordering::Relaxed);
}
pub fn last() -> usize {
    LAST.load(Ordering::Relaxed)
}
