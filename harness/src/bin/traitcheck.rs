//! Stand-alone compile-time check of the auto traits (C15): built with `--features assert-traits --bin traitcheck`, it needs
//! nothing of the harness proper, so it still compiles (or fails for the right reason) when a change to tz-rs's public
//! signatures keeps the executor from building.
#[path = "../traits.rs"]
mod traits;

fn main() {
    traits::all();
}
