//! Wire format helpers: wide integers as `[sign, limb0, limb1, ...]` (base 1000, little-endian),
//! byte strings as arrays of numbers. No arithmetic that takes part in a verdict lives here:
//! only formatting (`% 1000` in a loop) and re-assembly of inputs.

use serde_json::{json, Value};

pub fn w(v: i128) -> Value {
    let neg = v < 0;
    let mut m = v.unsigned_abs();
    let mut out = vec![Value::from(if neg { 1 } else { 0 })];
    while m > 0 {
        out.push(Value::from((m % 1000) as u64));
        m /= 1000;
    }
    Value::Array(out)
}

pub fn w_to_i128(v: &Value) -> i128 {
    let arr = v.as_array().expect("wide: not an array");
    let neg = arr[0].as_i64().expect("wide: sign") == 1;
    let mut acc: i128 = 0;
    for limb in arr[1..].iter().rev() {
        let l = limb.as_i64().expect("wide: limb") as i128;
        acc = if neg { acc * 1000 - l } else { acc * 1000 + l };
    }
    acc
}

pub fn w_to_i64(v: &Value) -> i64 {
    let x = w_to_i128(v);
    i64::try_from(x).expect("wide: does not fit i64")
}

/// A number that TLC can read (32-bit) or, failing that, a tagged wide value that equals no expected number.
pub fn num<T: Into<i128>>(v: T) -> Value {
    let v: i128 = v.into();
    if v >= i32::MIN as i128 && v <= i32::MAX as i128 {
        Value::from(v as i64)
    } else {
        json!({ "W": w(v) })
    }
}

pub fn bytes(b: &[u8]) -> Value {
    Value::Array(b.iter().map(|&x| Value::from(x as u64)).collect())
}

pub fn to_bytes(v: &Value) -> Vec<u8> {
    v.as_array().expect("bytes: not an array").iter().map(|x| x.as_u64().expect("bytes: not a number") as u8).collect()
}

pub fn geti(a: &Value, k: &str) -> i64 {
    a.get(k).unwrap_or_else(|| panic!("missing argument {k}")).as_i64().unwrap_or_else(|| panic!("argument {k} not an integer"))
}

pub fn gets<'a>(a: &'a Value, k: &str) -> &'a str {
    a.get(k).unwrap_or_else(|| panic!("missing argument {k}")).as_str().unwrap_or_else(|| panic!("argument {k} not a string"))
}

pub fn getv<'a>(a: &'a Value, k: &str) -> &'a Value {
    a.get(k).unwrap_or_else(|| panic!("missing argument {k}"))
}
