//! tzverif: conformance harness binding the TLA+ specification of tz-rs to the crate.
//!   tzverif run <in.ndjson> <out.ndjson> [--mem] [--flush]
//!        execute every {"op","a"[,"x"]} line against the crate, add "r" (and "m" when "x"/"xerr" is present);
//!        --mem adds "mem": peak bytes allocated during the call; --flush writes each line at once (so that a hang or an
//!        abort of the process can be attributed to the event after the last complete line)
//!   tzverif threads <in.ndjson> <out.ndjson> <nthreads>
//!        run the session sequentially, then again on <nthreads> threads sharing the same zone values; every thread's result for
//!        every event must equal the sequential one ("tmis": number of threads that disagreed)
//!   tzverif one '<json line>'...     execute single events and print them
mod exec;
mod mem;
#[cfg(feature = "assert-traits")]
mod traits;
mod wire;

use serde_json::Value;
use std::io::{BufRead, BufReader, BufWriter, Write};

#[global_allocator]
static GLOBAL: mem::Counting = mem::Counting;

fn run_line(line: &str, st: &mut exec::State, mem: bool) -> Value {
    let mut v: Value = serde_json::from_str(line).expect("input line is not JSON");
    let op = v.get("op").and_then(|x| x.as_str()).expect("line without op").to_string();
    let a = v.get("a").cloned().unwrap_or(Value::Null);
    mem::clear_last();
    let r = exec::exec(&op, &a, st);
    let peak = mem::last();
    let mut m = v.get("x").map(|x| x.as_array().map(|xs| xs.iter().any(|e| *e == r)).unwrap_or(false));
    if v.get("xerr").is_some() {
        // the specification only says "refused": any error kind matches
        m = Some(r.get("err").is_some());
    }
    let obj = v.as_object_mut().unwrap();
    obj.insert("r".into(), r);
    if let Some(m) = m {
        obj.insert("m".into(), Value::from(m as u8));
    }
    if mem {
        obj.insert("mem".into(), Value::from(peak as u64));
    }
    v
}

fn read_lines(path: &str) -> Vec<String> {
    BufReader::new(std::fs::File::open(path).expect("cannot open input")).lines().map(|l| l.unwrap()).filter(|l| !l.trim().is_empty()).collect()
}

fn main() {
    // panics inside the crate under test are data (caught per call); keep the default hook quiet
    std::panic::set_hook(Box::new(|_| {}));
    let args: Vec<String> = std::env::args().collect();
    match args.get(1).map(|s| s.as_str()) {
        Some("run") => {
            let mem = args.iter().any(|a| a == "--mem");
            let flush = args.iter().any(|a| a == "--flush");
            let inp = BufReader::new(std::fs::File::open(&args[2]).expect("cannot open input"));
            let mut out = BufWriter::new(std::fs::File::create(&args[3]).expect("cannot create output"));
            let mut st = exec::State::new();
            let mut n = 0u64;
            let mut mism = 0u64;
            for line in inp.lines() {
                let line = line.unwrap();
                if line.trim().is_empty() {
                    continue;
                }
                let v = run_line(&line, &mut st, mem);
                if v.get("m").and_then(|m| m.as_u64()) == Some(0) {
                    mism += 1;
                }
                serde_json::to_writer(&mut out, &v).unwrap();
                out.write_all(b"\n").unwrap();
                if flush {
                    out.flush().unwrap();
                }
                n += 1;
            }
            out.flush().unwrap();
            println!("{{\"events\":{n},\"vector_mismatches\":{mism}}}");
        }
        Some("threads") => {
            let lines = read_lines(&args[2]);
            let nthreads: usize = args[4].parse().expect("nthreads");
            // sequential pass: also yields, for every event, the session state in force *before* it (zones are shared by Arc)
            let mut st = exec::State::new();
            let mut seq: Vec<Value> = Vec::new();
            let mut states: Vec<exec::State> = Vec::new();
            for l in &lines {
                states.push(st.clone());
                seq.push(run_line(l, &mut st, false));
            }
            let lines = std::sync::Arc::new(lines);
            let states = std::sync::Arc::new(states);
            let mut handles = Vec::new();
            for t in 0..nthreads {
                let lines = lines.clone();
                let states = states.clone();
                handles.push(std::thread::spawn(move || {
                    // every thread walks all events, starting at a different place, each against the shared zone of that event
                    let n = lines.len();
                    let mut res: Vec<(usize, Value)> = Vec::with_capacity(n);
                    for k in 0..n {
                        let i = (k + t * 7919) % n;
                        let mut local = states[i].clone();
                        let v = run_line(&lines[i], &mut local, false);
                        res.push((i, v.get("r").cloned().unwrap_or(Value::Null)));
                    }
                    res
                }));
            }
            let mut tmis = vec![0u64; seq.len()];
            for h in handles {
                for (i, r) in h.join().expect("worker thread died") {
                    if seq[i].get("r") != Some(&r) {
                        tmis[i] += 1;
                    }
                }
            }
            let mut out = BufWriter::new(std::fs::File::create(&args[3]).expect("cannot create output"));
            let mut bad = 0u64;
            for (i, mut v) in seq.into_iter().enumerate() {
                if tmis[i] > 0 {
                    bad += 1;
                }
                v.as_object_mut().unwrap().insert("tmis".into(), Value::from(tmis[i]));
                serde_json::to_writer(&mut out, &v).unwrap();
                out.write_all(b"\n").unwrap();
            }
            out.flush().unwrap();
            println!("{{\"events\":{},\"vector_mismatches\":0,\"thread_mismatches\":{bad}}}", tmis.len());
        }
        Some("one") => {
            let mut st = exec::State::new();
            for l in &args[2..] {
                let v = run_line(l, &mut st, false);
                println!("{}", serde_json::to_string(&v).unwrap());
            }
        }
        _ => {
            eprintln!("usage: tzverif run <in> <out> [--mem] [--flush] | threads <in> <out> <n> | one <json>...");
            std::process::exit(2);
        }
    }
}
