//! tzverif: conformance harness binding the TLA+ specification of tz-rs to the crate.
//!   tzverif run <in.ndjson> <out.ndjson>   execute every {"op","a"[,"x"]} line against the crate, add "r" (and "m" when "x" is present)
//!   tzverif one '<json line>'              execute a single event and print it
mod exec;
mod wire;

use serde_json::Value;
use std::io::{BufRead, BufReader, BufWriter, Write};

fn run_line(line: &str, st: &mut exec::State) -> Value {
    let mut v: Value = serde_json::from_str(line).expect("input line is not JSON");
    let op = v.get("op").and_then(|x| x.as_str()).expect("line without op").to_string();
    let a = v.get("a").cloned().unwrap_or(Value::Null);
    let r = exec::exec(&op, &a, st);
    let mut m = v.get("x").map(|x| x.as_array().map(|xs| xs.iter().any(|e| *e == r)).unwrap_or(false));
    if v.get("xerr").is_some() {
        // the specification only says "refused": any error kind matches
        m = Some(r.get("err").is_some());
    }
    let obj = v.as_object_mut().unwrap();
    obj.insert("r".into(), r);
    if let Some(m) = m {
        obj.insert("m".into(), Value::from(m as u8));
    }
    v
}

fn main() {
    // panics inside the crate under test are data (caught per call); keep the default hook quiet
    std::panic::set_hook(Box::new(|_| {}));
    let args: Vec<String> = std::env::args().collect();
    match args.get(1).map(|s| s.as_str()) {
        Some("run") => {
            let inp = BufReader::new(std::fs::File::open(&args[2]).expect("cannot open input"));
            let mut out = BufWriter::new(std::fs::File::create(&args[3]).expect("cannot create output"));
            let mut st = exec::State::new();
            let mut n = 0u64;
            let mut mism = 0u64;
            for line in inp.lines() {
                let line = line.unwrap();
                if line.trim().is_empty() {
                    continue;
                }
                let v = run_line(&line, &mut st);
                if v.get("m").and_then(|m| m.as_u64()) == Some(0) {
                    mism += 1;
                }
                serde_json::to_writer(&mut out, &v).unwrap();
                out.write_all(b"\n").unwrap();
                n += 1;
            }
            out.flush().unwrap();
            println!("{{\"events\":{n},\"vector_mismatches\":{mism}}}");
        }
        Some("one") => {
            let mut st = exec::State::new();
            // optional zone-setting event first
            for l in &args[2..] {
                let v = run_line(l, &mut st);
                println!("{}", serde_json::to_string(&v).unwrap());
            }
        }
        _ => {
            eprintln!("usage: tzverif run <in> <out> | one <json>...");
            std::process::exit(2);
        }
    }
}
