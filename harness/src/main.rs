//! tzverif: conformance harness binding the TLA+ specification of tz-rs to the crate.
//!   tzverif run <in.ndjson> <out.ndjson> [--mem] [--flush]
//!        execute every {"op","a"[,"x"]} line against the crate, add "r" (and "m" when "x"/"xerr" is present);
//!        --mem adds "mem": peak bytes allocated during the call; --flush writes each line at once (so that a hang or an
//!        abort of the process can be attributed to the event after the last complete line)
//!   tzverif threads <in.ndjson> <out.ndjson> <nthreads>
//!        run the session sequentially, then again on <nthreads> threads sharing the same zone values; every thread's result for
//!        every event must equal the sequential one ("tmis": number of threads that disagreed)
//!   tzverif one '<json line>'...     execute single events and print them
mod exec;
mod mem;
#[cfg(feature = "assert-traits")]
mod traits;
mod wire;

use serde_json::Value;
use std::io::{BufRead, BufReader, BufWriter, Write};

#[global_allocator]
static GLOBAL: mem::Counting = mem::Counting;

fn run_line(line: &str, st: &mut exec::State, mem: bool) -> Value {
    let mut v: Value = serde_json::from_str(line).expect("input line is not JSON");
    let op = v.get("op").and_then(|x| x.as_str()).expect("line without op").to_string();
    let a = v.get("a").cloned().unwrap_or(Value::Null);
    if v.get("g").is_some() {
        // a group mark opens a new client session: no zone yet (UTC), an empty search buffer
        *st = exec::State::new();
    }
    mem::clear_last();
    let r = exec::exec(&op, &a, st);
    let peak = mem::last();
    let mut m = v.get("x").map(|x| x.as_array().map(|xs| xs.iter().any(|e| *e == r)).unwrap_or(false));
    if v.get("xerr").is_some() {
        // the specification only says "refused": any error kind matches
        m = Some(r.get("err").is_some());
    }
    let obj = v.as_object_mut().unwrap();
    obj.insert("r".into(), r);
    if let Some(m) = m {
        obj.insert("m".into(), Value::from(m as u8));
    }
    if mem {
        obj.insert("mem".into(), Value::from(peak as u64));
    }
    v
}

fn read_lines(path: &str) -> Vec<String> {
    BufReader::new(std::fs::File::open(path).expect("cannot open input")).lines().map(|l| l.unwrap()).filter(|l| !l.trim().is_empty()).collect()
}

fn main() {
    // panics inside the crate under test are data (caught per call); keep the default hook quiet
    std::panic::set_hook(Box::new(|_| {}));
    let args: Vec<String> = std::env::args().collect();
    match args.get(1).map(|s| s.as_str()) {
        Some("run") => {
            let mem = args.iter().any(|a| a == "--mem");
            let flush = args.iter().any(|a| a == "--flush");
            let inp = BufReader::new(std::fs::File::open(&args[2]).expect("cannot open input"));
            let mut out = BufWriter::new(std::fs::File::create(&args[3]).expect("cannot create output"));
            let mut st = exec::State::new();
            let mut n = 0u64;
            let mut mism = 0u64;
            for line in inp.lines() {
                let line = line.unwrap();
                if line.trim().is_empty() {
                    continue;
                }
                let v = run_line(&line, &mut st, mem);
                if v.get("m").and_then(|m| m.as_u64()) == Some(0) {
                    mism += 1;
                }
                serde_json::to_writer(&mut out, &v).unwrap();
                out.write_all(b"\n").unwrap();
                if flush {
                    out.flush().unwrap();
                }
                n += 1;
            }
            out.flush().unwrap();
            println!("{{\"events\":{n},\"vector_mismatches\":{mism}}}");
        }
        Some("threads") => {
            let lines = read_lines(&args[2]);
            let nthreads: usize = args[4].parse().expect("nthreads");
            // sequential pass: also yields, for every event, the session state in force *before* it (zones are shared by Arc)
            let mut st = exec::State::new();
            let mut seq: Vec<Value> = Vec::new();
            let mut states: Vec<exec::State> = Vec::new();
            for l in &lines {
                states.push(st.clone());
                seq.push(run_line(l, &mut st, false));
            }
            let lines = std::sync::Arc::new(lines);
            let states = std::sync::Arc::new(states);
            let mut handles = Vec::new();
            for t in 0..nthreads {
                let lines = lines.clone();
                let states = states.clone();
                handles.push(std::thread::spawn(move || {
                    // every thread walks all events, starting at a different place, each against the shared zone of that event
                    let n = lines.len();
                    let mut res: Vec<(usize, Value)> = Vec::with_capacity(n);
                    for k in 0..n {
                        let i = (k + t * 7919) % n;
                        let mut local = states[i].clone();
                        let v = run_line(&lines[i], &mut local, false);
                        res.push((i, v.get("r").cloned().unwrap_or(Value::Null)));
                    }
                    res
                }));
            }
            let mut tmis = vec![0u64; seq.len()];
            for h in handles {
                for (i, r) in h.join().expect("worker thread died") {
                    if seq[i].get("r") != Some(&r) {
                        tmis[i] += 1;
                    }
                }
            }
            let mut out = BufWriter::new(std::fs::File::create(&args[3]).expect("cannot create output"));
            let mut bad = 0u64;
            for (i, mut v) in seq.into_iter().enumerate() {
                if tmis[i] > 0 {
                    bad += 1;
                }
                v.as_object_mut().unwrap().insert("tmis".into(), Value::from(tmis[i]));
                serde_json::to_writer(&mut out, &v).unwrap();
                out.write_all(b"\n").unwrap();
            }
            out.flush().unwrap();
            println!("{{\"events\":{},\"vector_mismatches\":0,\"thread_mismatches\":{bad}}}", tmis.len());
        }
        Some("cons") => {
            // C11 sweep: every line is {"sd","ed","dv":[[d, verdict]...]} emitted by MC_ConsAll; the constructor is called at every d
            // through several (std offset, dst offset, end time) splits; start time = d + std - dst + end (input assembly, no verdict here)
            const ANCHORS: [(i64, i64, i64); 6] = [(0, 0, 0), (0, 3600, 0), (-18000, -14400, 0), (0, 3600, 7200), (-18000, -14400, 7200), (3600, 0, 0)];
            let splits: [(i64, i64, i64); 8] = [(0, 0, 0), (0, 3600, 7200), (-89999, 93599, 0), (93599, -89999, 604799), (3600, 0, -604799), (-18000, -14400, 90000), (-89999, 93599, -604799), (0, 0, 604799)];
            let inp = BufReader::new(std::fs::File::open(&args[2]).expect("cannot open input"));
            let mut out = BufWriter::new(std::fs::File::create(&args[3]).expect("cannot create output"));
            let (mut pairs, mut calls, mut mism) = (0u64, 0u64, 0u64);
            let mut st = exec::State::new();
            for line in inp.lines() {
                let line = line.unwrap();
                if line.trim().is_empty() {
                    continue;
                }
                let v: Value = serde_json::from_str(&line).expect("cons line");
                pairs += 1;
                for dv in v["dv"].as_array().expect("dv") {
                    let d = dv[0].as_i64().unwrap();
                    let verdict = dv[1].as_i64().unwrap();
                    // ... and through rules whose START time is a round value (0 h, 2 h), the end time solved for
                    let anchored = ANCHORS.iter().map(|(so, dof, stt)| (*so, *dof, stt - so + dof - d, *stt));
                    for (so, dof, et, stt) in splits.iter().map(|(so, dof, et)| (*so, *dof, *et, d + so + et - dof)).chain(anchored) {
                        if stt.abs() >= 604800 || et.abs() >= 604800 {
                            continue;
                        }
                        let a = serde_json::json!({
                            "std": {"off": so, "dst": 0, "des": [83, 84, 68]}, "dst": {"off": dof, "dst": 1, "des": [68, 83, 84]},
                            "sd": v["sd"], "st": stt, "ed": v["ed"], "et": et,
                        });
                        let r = exec::exec("rule", &a, &mut st);
                        calls += 1;
                        let good = if verdict == 1 { r.get("ok").is_some() } else { r.get("err").and_then(|e| e.as_str()) == Some("TransitionRule.InconsistentRule") };
                        if !good {
                            mism += 1;
                            if mism <= 50 {
                                serde_json::to_writer(&mut out, &serde_json::json!({"op": "rule", "a": a, "r": r, "x": [if verdict == 1 { serde_json::json!({"ok": 1}) } else { serde_json::json!({"err": "TransitionRule.InconsistentRule"}) }], "m": 0})).unwrap();
                                out.write_all(b"\n").unwrap();
                            }
                        }
                    }
                }
            }
            out.flush().unwrap();
            println!("{{\"pairs\":{pairs},\"calls\":{calls},\"mismatches\":{mism}}}");
        }
        Some("lemma") => {
            // Native factorisation lemmas for C01 / C02 (the implementation compared WITH ITSELF; the tables these reduce to - every day of
            // one cycle at 00:00:00, every second of one day, the cycle indices - are validated against the TLA+ specification by TLC):
            //  A. for every day d of the 400-year cycle 2000..2399 and every second s: date(d, s) = date(d, 0) and time(d, s) = time(0, s)
            //  B. for every day d and 64 cycle indices c: fields(c, d) = fields(0, d) with the year shifted by 400 c
            //  C. timegm is the inverse: UtcDateTime::new(fields(c, d, s)).unix_time() = the instant, for every d, the cycles of B, three seconds of day
            use tz::UtcDateTime;
            const B: i64 = 946684800; // 2000-01-01T00:00:00Z
            const DAYS: i64 = 146097;
            let nthreads: i64 = args.get(2).and_then(|s| s.parse().ok()).unwrap_or(16);
            let cycles: Vec<i64> = {
                let mut v: Vec<i64> = vec![-5368715, -5368714, -5368713, -1342178, -1000, -6, -5, -4, -3, -2, -1, 0, 1, 2, 3, 1000, 1342177, 5368702, 5368703, 5368704];
                let mut x: i64 = 12345;
                while v.len() < 64 {
                    x = (x * 6364136223846793005i64.wrapping_add(0) % 1000003 + 1442695) % 5368700;
                    v.push(if v.len() % 2 == 0 { x } else { -x });
                }
                v
            };
            let date_of = |t: i64| UtcDateTime::from_timespec(t, 0).map(|x| (x.year(), x.month(), x.month_day(), x.week_day(), x.year_day()));
            let time_of = |t: i64| UtcDateTime::from_timespec(t, 0).map(|x| (x.hour(), x.minute(), x.second()));
            let times: Vec<(u8, u8, u8)> = (0..86400).map(|s| time_of(B + s).unwrap()).collect();
            let times = std::sync::Arc::new(times);
            let cycles = std::sync::Arc::new(cycles);
            let mut handles = Vec::new();
            for t in 0..nthreads {
                let times = times.clone();
                let cycles = cycles.clone();
                handles.push(std::thread::spawn(move || {
                    let mut bad: Vec<(String, i64)> = Vec::new();
                    let (mut na, mut nb, mut nc) = (0u64, 0u64, 0u64);
                    let mut d = t;
                    while d < DAYS {
                        let base = date_of(B + d * 86400).unwrap();
                        for s in 0..86400i64 {
                            let x = UtcDateTime::from_timespec(B + d * 86400 + s, 0).unwrap();
                            na += 1;
                            if (x.year(), x.month(), x.month_day(), x.week_day(), x.year_day()) != base || (x.hour(), x.minute(), x.second()) != times[s as usize] {
                                if bad.len() < 20 {
                                    bad.push(("A".into(), B + d * 86400 + s));
                                }
                            }
                        }
                        for &c in cycles.iter() {
                            let tt = B + (c * DAYS + d) * 86400;
                            nb += 1;
                            match date_of(tt) {
                                Ok(f) => {
                                    if (f.0 as i64, f.1, f.2, f.3, f.4) != (base.0 as i64 + 400 * c, base.1, base.2, base.3, base.4) && bad.len() < 20 {
                                        bad.push(("B".into(), tt));
                                    }
                                    for s in [0i64, 43200, 86399] {
                                        let x = UtcDateTime::from_timespec(tt + s, 0).unwrap();
                                        nc += 1;
                                        let back = UtcDateTime::new(x.year(), x.month(), x.month_day(), x.hour(), x.minute(), x.second(), 0).map(|y| y.unix_time());
                                        if back.ok() != Some(tt + s) && bad.len() < 20 {
                                            bad.push(("C".into(), tt + s));
                                        }
                                    }
                                }
                                Err(_) => {
                                    // outside the supported range: the whole year must be outside (checked against the spec's range ends by TLC vectors)
                                    let y = base.0 as i64 + 400 * c;
                                    if (i32::MIN as i64..=i32::MAX as i64).contains(&y) && bad.len() < 20 {
                                        bad.push(("B-range".into(), tt));
                                    }
                                }
                            }
                        }
                        d += nthreads;
                    }
                    (na, nb, nc, bad)
                }));
            }
            let (mut na, mut nb, mut nc) = (0u64, 0u64, 0u64);
            let mut out = BufWriter::new(std::fs::File::create(&args[3]).expect("cannot create output"));
            let mut nbad = 0u64;
            for h in handles {
                let (a, b, c, bad) = h.join().expect("lemma worker died");
                na += a;
                nb += b;
                nc += c;
                for (which, t) in bad {
                    nbad += 1;
                    let mut st = exec::State::new();
                    let a = serde_json::json!({"t": wire::w(t as i128), "ns": 0, "via": "utc"});
                    let r = exec::exec("gmtime", &a, &mut st);
                    serde_json::to_writer(&mut out, &serde_json::json!({"op": "gmtime", "a": a, "r": r, "lemma": which})).unwrap();
                    out.write_all(b"\n").unwrap();
                }
            }
            out.flush().unwrap();
            println!("{{\"A_calls\":{na},\"B_calls\":{nb},\"C_calls\":{nc},\"violations\":{nbad}}}");
        }
        Some("one") => {
            let mut st = exec::State::new();
            for l in &args[2..] {
                let v = run_line(l, &mut st, false);
                println!("{}", serde_json::to_string(&v).unwrap());
            }
        }
        _ => {
            eprintln!("usage: tzverif run <in> <out> [--mem] [--flush] | threads <in> <out> <n> | one <json>...");
            std::process::exit(2);
        }
    }
}
