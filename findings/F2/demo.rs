use tz::timezone::*;
use tz::*;
#[test]
fn all_year_dst_no_bogus_gap() {
    // RFC 8536 3.3.1: all-year daylight saving time, "EST5EDT,0/0,J365/25"
    let std = LocalTimeType::new(-18000, false, Some(b"EST")).unwrap();
    let dst = LocalTimeType::new(-14400, true, Some(b"EDT")).unwrap();
    let rule = AlternateTime::new(std, dst, RuleDay::Julian0WithLeap(Julian0WithLeap::new(0).unwrap()), 0, RuleDay::Julian1WithoutLeap(Julian1WithoutLeap::new(365).unwrap()), 90000).unwrap();
    let tz = TimeZone::new(vec![], vec![std, dst], vec![], Some(TransitionRule::Alternate(rule))).unwrap();
    for y in [2020, 2021, 2024] {
        for (mo, d, h) in [(1, 1, 0), (12, 31, 23), (6, 1, 12)] {
            let r = DateTime::find(y, mo, d, h, 30, 0, 0, tz.as_ref()).unwrap();
            let u = r.unique().expect("a local time that occurs once is unique");
            assert_eq!(u.local_time_type().ut_offset(), -14400);
        }
    }
}
